#!/bin/bash
# Build the overlay venv used by every check: /venv's packages + /repo + z3-solver (offline wheelhouse).
set -e
cd "$(dirname "$0")"
V=/verif/.venv
if [ -x "$V/bin/python" ] && "$V/bin/python" -c "import z3, numpy, msdm" 2>/dev/null; then
  exit 0
fi
rm -rf "$V"
/venv/bin/python -m venv "$V"
SP=$("$V/bin/python" -c "import sysconfig; print(sysconfig.get_paths()['purelib'])")
cat > "$SP/verif_overlay.pth" <<P
import site; site.addsitedir('/venv/lib/python3.12/site-packages')
/repo
P
PIP_NO_INDEX=1 "$V/bin/pip" install -q --no-index --find-links /opt/veriftools/wheels z3-solver >/dev/null
"$V/bin/python" -c "import z3, numpy, msdm; print('overlay ok', z3.get_version_string())"
