"""symx core: z3-backed Python numbers, path exploration by re-execution, obligations.

A harness is a Python function ``h(sx)``.  In SYM mode the inputs it requests
(`sx.real`, `sx.integer`, `sx.boolean`) are z3 variables wrapped in Python number
objects; every ``bool()`` of a symbolic condition is a fork point.  ``explore``
re-executes the harness once per feasible path (depth first, decision
prefixes).  ``sx.prove*`` discharge obligations with a z3 query on
``path-condition AND NOT phi``.

In REAL mode the same harness runs with concrete floats/ints taken from a
model (counterexample replay and twin validation): no facades, real numpy.
"""
import math
import time
import z3
from fractions import Fraction

try:
    import numpy as _np
    _NPNUM = (_np.floating, _np.integer, _np.bool_)
except ImportError:  # pragma: no cover
    _np = None
    _NPNUM = ()


# --------------------------------------------------------------------------
# control-flow exceptions (BaseException so that `except Exception` in the
# code under test cannot swallow them)
class Infeasible(BaseException):
    pass


class Unknown(BaseException):
    pass


class PathCut(BaseException):
    """unwinding assumption hit (counted, not an error)"""


class Unmodelled(BaseException):
    """the code under test reached something the facades do not model"""


CUR = None  # current Ctx
MERGE = [True]  # False: max/min/abs of symbolic numbers fork instead of building If-terms


def cur():
    return CUR


# --------------------------------------------------------------------------
RETRY_BUDGET = [2]      # timed-out queries that may be retried with a longer budget, per job (reset by the engine)


class Ctx:
    LOGIC = [None]   # set by the runner per job (e.g. 'QF_LRA' for harnesses whose formulas are linear: much faster)

    def __init__(self, prefix, timeout_ms=20000, mode='sym', model=None):
        self.mode = mode  # 'sym' | 'real'
        self.solver = z3.SolverFor(Ctx.LOGIC[0]) if Ctx.LOGIC[0] else z3.Solver()
        self.solver.set('timeout', timeout_ms)
        self.timeout_ms = timeout_ms
        self.prefix = list(prefix)
        self.pos = 0
        self.pending = []
        self.queries = 0
        self.solver_s = 0.0
        self.fresh = 0
        self.model = None  # cached model of current path constraints
        self.inputs = {}  # name -> z3 var (sym) / value (real)
        self.given = model or {}  # REAL mode: name -> Fraction/int/bool
        self.missing = []  # REAL mode: inputs requested but absent in model
        self.counters = {}
        self.obligations = 0
        self.discharged = 0
        self.inconclusive = []
        self.violations = []  # (label, model_dict)
        self.assumes = 0
        self.observed = {}
        self.forks = 0
        self.notes = []
        self.stop_at_label = None
        self.cache = None
        self.max_decisions = None   # unwinding bound: paths deeper than this are cut
        self.decisions = []         # (condition, chosen side) of every symbolic branch on this path
        self.cached = 0
        self.slow = {}

    # -- solver plumbing
    def _check(self, *assump):
        t = time.time()
        r = self.solver.check(*assump)
        if r == z3.unknown and self.timeout_ms and time.time() - t >= 0.5 * self.timeout_ms / 1000.0 and RETRY_BUDGET[0] > 0:
            RETRY_BUDGET[0] -= 1
            # timed out (possibly only because the machine is loaded): one retry with five times the budget
            self.solver.set('timeout', min(5 * self.timeout_ms, 900000))
            try:
                r = self.solver.check(*assump)
                self.retries = getattr(self, 'retries', 0) + 1
            finally:
                self.solver.set('timeout', self.timeout_ms)
        self.solver_s += time.time() - t
        self.queries += 1
        return r

    def add(self, e, *more):
        for x in more:
            self.add(x)
        self.solver.add(e)
        if self.model is not None:
            try:
                if not z3.is_true(self.model.eval(e, model_completion=True)):
                    self.model = None
            except z3.Z3Exception:
                self.model = None

    def get_model(self):
        if self.model is None:
            r = self._check()
            if r == z3.unsat:
                raise Infeasible()
            if r == z3.unknown:
                raise Unknown('model')
            self.model = self.solver.model()
        return self.model

    def decide(self, e):
        e = z3.simplify(e)
        if z3.is_true(e):
            return True
        if z3.is_false(e):
            return False
        if self.max_decisions is not None and self.pos >= self.max_decisions:
            raise PathCut('decision-depth cap')
        if self.pos < len(self.prefix):
            c = self.prefix[self.pos]
            if isinstance(c, tuple):
                raise RuntimeError("prefix desync (bool vs int decision)")
        else:
            # use cached model to save one query
            mv = None
            if self.model is not None:
                try:
                    v = self.model.eval(e, model_completion=True)
                    mv = True if z3.is_true(v) else (False if z3.is_false(v) else None)
                except z3.Z3Exception:
                    mv = None
            if mv is None:
                rt = self._check(e)
                if rt == z3.unknown:
                    raise Unknown(str(e)[:200])
                if rt == z3.sat:
                    self.model = self.solver.model()
                    mv = True
                else:
                    # e infeasible: path feasible => not e holds
                    c = False
                    self.prefix.append(c)
                    self.pos += 1
                    self.decisions.append((e, c))
                    self.solver.add(z3.Not(e))
                    return c
            other = z3.Not(e) if mv else e
            keep = self.model
            ro = self._check(other)
            if ro == z3.unknown:
                raise Unknown(str(e)[:200])
            c = mv
            if ro == z3.sat:
                self.pending.append(self.prefix + [not c])
                self.forks += 1
            self.model = keep
            self.prefix.append(c)
        self.pos += 1
        self.decisions.append((e, c))
        self.add(e if c else z3.Not(e))
        return c

    def counter(self, key):
        self.counters[key] = self.counters.get(key, 0) + 1
        return self.counters[key]


# --------------------------------------------------------------------------
def _is_inf(o):
    return isinstance(o, float) and math.isinf(o)


def nice_fraction(x):
    """floats are modelled as reals: a float within 1e-13 (relative) of a rational with denominator
    <= 10^9 stands for that rational (0.45 is 9/20, 1e-8 is 1/10^8); otherwise its exact binary value"""
    f = Fraction(x)
    if f.denominator <= 10**9:
        return f
    g = f.limit_denominator(10**9)
    if abs(g - f) <= Fraction(1, 10**13) * max(1, abs(f)):
        return g
    return f


def toz(x):
    """python/symbolic number -> z3 Real term (NotImplemented if not a number)"""
    if isinstance(x, SymReal):
        return x.z
    if isinstance(x, SymInt):
        return z3.ToReal(x.z)
    if isinstance(x, SymBool):
        return z3.If(x.z, z3.RealVal(1), z3.RealVal(0))
    if isinstance(x, bool):
        return z3.RealVal(int(x))
    if isinstance(x, int):
        return z3.RealVal(x)
    if isinstance(x, Fraction):
        return z3.RealVal(str(x))
    if isinstance(x, float):
        if math.isinf(x) or math.isnan(x):
            raise Unmodelled("non-finite float in symbolic arithmetic")
        return z3.RealVal(str(nice_fraction(x)))
    if isinstance(x, _NPNUM):
        return toz(x.item())
    return NotImplemented


def tob(x):
    if isinstance(x, SymBool):
        return x.z
    if isinstance(x, (SymReal, SymInt)):
        return x.z != 0
    return z3.BoolVal(bool(x))


def is_sym(x):
    return isinstance(x, (SymReal, SymInt, SymBool, LogVal))


def _mk(z):
    """wrap a Real term; fold constants back to Fractions"""
    if z3.is_rational_value(z):
        f = Fraction(z.numerator_as_long(), z.denominator_as_long())
        return int(f) if f.denominator == 1 else f
    return SymReal(z)


def _is_zero(o):
    return isinstance(o, (int, float, Fraction) + _NPNUM) and not isinstance(o, bool) and o == 0


def _is_one(o):
    return isinstance(o, (int, float, Fraction) + _NPNUM) and not isinstance(o, bool) and o == 1


class SymBool:
    __slots__ = ('z',)

    def __init__(self, z):
        self.z = z

    def __bool__(self):
        return CUR.decide(self.z)

    def __and__(self, o):
        if isinstance(o, (bool,) + ((_np.bool_,) if _np else ())):
            return self if o else False
        return SymBool(z3.And(self.z, tob(o)))
    __rand__ = __and__

    def __or__(self, o):
        if isinstance(o, (bool,) + ((_np.bool_,) if _np else ())):
            return True if o else self
        return SymBool(z3.Or(self.z, tob(o)))
    __ror__ = __or__

    def __xor__(self, o):
        return SymBool(z3.Xor(self.z, tob(o)))
    __rxor__ = __xor__

    def __invert__(self):
        return SymBool(z3.Not(self.z))

    def __eq__(self, o):
        if isinstance(o, (SymBool, bool)):
            return SymBool(self.z == tob(o))
        return self._r() == o

    def __ne__(self, o):
        if isinstance(o, (SymBool, bool)):
            return SymBool(self.z != tob(o))
        return self._r() != o

    def __hash__(self):
        return id(self)

    def __repr__(self):
        return f"SymBool({self.z})"

    # numeric view (True==1)
    def _r(self):
        return SymReal(toz(self))

    def __add__(self, o): return self._r() + o
    def __radd__(self, o): return o + self._r()
    def __sub__(self, o): return self._r() - o
    def __rsub__(self, o): return o - self._r()
    def __mul__(self, o): return self._r() * o
    def __rmul__(self, o): return o * self._r()
    def __truediv__(self, o): return self._r() / o
    def __rtruediv__(self, o): return o / self._r()
    def __neg__(self): return -self._r()
    def __lt__(self, o): return self._r() < o
    def __le__(self, o): return self._r() <= o
    def __gt__(self, o): return self._r() > o
    def __ge__(self, o): return self._r() >= o
    def __float__(self): return float(bool(self))
    def __int__(self): return int(bool(self))
    def __index__(self): return int(bool(self))


class SymReal:
    __slots__ = ('z',)

    def __init__(self, z):
        self.z = z

    # ---- arithmetic
    def __add__(self, o):
        if _is_inf(o):
            return o
        if _is_zero(o):
            return self
        if isinstance(o, LogVal):
            return o.__radd__(self)
        zo = toz(o)
        if zo is NotImplemented:
            return NotImplemented
        return _mk(z3.simplify(self.z + zo))
    __radd__ = __add__

    def __sub__(self, o):
        if _is_inf(o):
            return -o
        if _is_zero(o):
            return self
        zo = toz(o)
        if zo is NotImplemented:
            return NotImplemented
        return _mk(z3.simplify(self.z - zo))

    def __rsub__(self, o):
        if _is_inf(o):
            return o
        zo = toz(o)
        if zo is NotImplemented:
            return NotImplemented
        return _mk(z3.simplify(zo - self.z))

    def __mul__(self, o):
        if _is_inf(o):
            if self > 0:
                return o
            if self < 0:
                return -o
            return float('nan')
        if _is_zero(o):
            return 0
        if _is_one(o):
            return self
        zo = toz(o)
        if zo is NotImplemented:
            return NotImplemented
        return _mk(z3.simplify(self.z * zo))
    __rmul__ = __mul__

    def __truediv__(self, o):
        if _is_inf(o):
            return 0
        if _is_one(o):
            return self
        if isinstance(o, (SymReal, SymInt, SymBool)):
            # division by a symbolic value: the path must exclude zero
            nz = (o != 0)
            if not nz:
                raise ZeroDivisionError("symbolic division by zero")
        elif o == 0:
            raise ZeroDivisionError("division by zero")
        zo = toz(o)
        if zo is NotImplemented:
            return NotImplemented
        return _mk(z3.simplify(self.z / zo))

    def __rtruediv__(self, o):
        if _is_inf(o):
            if self > 0:
                return o
            if self < 0:
                return -o
            raise ZeroDivisionError("symbolic division by zero")
        if _is_zero(o):
            if not (self != 0):
                raise ZeroDivisionError("symbolic division by zero")
            return 0
        nz = (self != 0)
        if not nz:
            raise ZeroDivisionError("symbolic division by zero")
        zo = toz(o)
        if zo is NotImplemented:
            return NotImplemented
        return _mk(z3.simplify(zo / self.z))

    def __pow__(self, o):
        if _np is not None and isinstance(o, _np.integer):
            o = int(o)
        if isinstance(o, int) and not isinstance(o, bool) and -8 <= o <= 8:
            r = 1
            for _ in range(abs(o)):
                r = r * self
            if o < 0:
                if self == 0:
                    return float('inf')
                return 1 / r
            return r
        raise Unmodelled(f"pow of symbolic real with exponent {o!r}")

    def __rpow__(self, o):
        raise Unmodelled("symbolic exponent")

    def __neg__(self):
        return _mk(z3.simplify(-self.z))

    def __pos__(self):
        return self

    def __abs__(self):
        if not MERGE[0]:
            return self if self >= 0 else -self
        return SymReal(z3.If(self.z >= 0, self.z, -self.z))

    # ---- comparisons
    def _cmp(self, o, op, inf_pos, inf_neg):
        if _is_inf(o):
            return inf_pos if o > 0 else inf_neg
        if isinstance(o, float) and math.isnan(o):
            return op is _NE
        if isinstance(o, LogVal):
            return NotImplemented
        zo = toz(o)
        if zo is NotImplemented:
            return NotImplemented
        e = z3.simplify(op(self.z, zo))
        if z3.is_true(e):
            return True
        if z3.is_false(e):
            return False
        return SymBool(e)

    def __lt__(self, o): return self._cmp(o, _LT, True, False)
    def __le__(self, o): return self._cmp(o, _LE, True, False)
    def __gt__(self, o): return self._cmp(o, _GT, False, True)
    def __ge__(self, o): return self._cmp(o, _GE, False, True)

    def __eq__(self, o):
        r = self._cmp(o, _EQ, False, False)
        return False if r is NotImplemented else r

    def __ne__(self, o):
        r = self._cmp(o, _NE, True, True)
        return True if r is NotImplemented else r

    def __bool__(self):
        return CUR.decide(self.z != 0)

    def __hash__(self):
        return id(self)

    def __repr__(self):
        return f"SymReal({z3.simplify(self.z)})"

    def __float__(self):
        raise Unmodelled("float() of a symbolic real (value would be realised)")

    def __round__(self, n=None):
        # rounding to >= 6 decimals is modelled as identity (perturbation <= 5e-7 outside claims)
        if n is not None and n >= 6:
            return self
        raise Unmodelled("round() of symbolic real")

    # numpy object-dtype ufunc hooks
    def exp(self):
        return sym_exp(self)

    def log(self):
        return sym_log(self)

    def sqrt(self):
        raise Unmodelled("sqrt of symbolic real")

    def conjugate(self):
        return self

    def item(self):
        return self

    def is_integer(self):
        raise Unmodelled("is_integer of symbolic real")


_LT = lambda a, b: a < b
_LE = lambda a, b: a <= b
_GT = lambda a, b: a > b
_GE = lambda a, b: a >= b
_EQ = lambda a, b: a == b
_NE = lambda a, b: a != b


# --------------------------------------------------------------------------
# symbolic ints: concretise on hash / index / int
def tozi(x):
    if isinstance(x, SymInt):
        return x.z
    if isinstance(x, bool):
        return z3.IntVal(int(x))
    if isinstance(x, int):
        return z3.IntVal(x)
    if _np is not None and isinstance(x, _np.integer):
        return z3.IntVal(int(x))
    return NotImplemented


def _mki(z):
    z = z3.simplify(z)
    if z3.is_int_value(z):
        return z.as_long()
    return SymInt(z)


def _ibin(op, rev=False):
    def f(self, o):
        if isinstance(o, (SymReal, float, Fraction, SymBool)) or (_np is not None and isinstance(o, _np.floating)):
            if _is_inf(o):
                return NotImplemented
            a, b = SymReal(z3.ToReal(self.z)), o
            return op(b, a) if rev else op(a, b)
        zo = tozi(o)
        if zo is NotImplemented:
            return NotImplemented
        return _mki(op(zo, self.z) if rev else op(self.z, zo))
    return f


def _icmp(op):
    def f(self, o):
        zo = tozi(o)
        if zo is NotImplemented:
            if _is_inf(o):
                return NotImplemented
            if isinstance(o, (SymReal, float, Fraction)):
                e = z3.simplify(op(z3.ToReal(self.z), toz(o)))
            else:
                return NotImplemented
        else:
            e = z3.simplify(op(self.z, zo))
        if z3.is_true(e):
            return True
        if z3.is_false(e):
            return False
        return SymBool(e)
    return f


class SymInt:
    __slots__ = ('z',)

    def __init__(self, z):
        self.z = z
    __add__ = _ibin(lambda a, b: a + b)
    __radd__ = _ibin(lambda a, b: a + b, True)
    __sub__ = _ibin(lambda a, b: a - b)
    __rsub__ = _ibin(lambda a, b: a - b, True)
    __mul__ = _ibin(lambda a, b: a * b)
    __rmul__ = _ibin(lambda a, b: a * b, True)

    def __truediv__(self, o):
        return SymReal(z3.ToReal(self.z)) / o

    def __rtruediv__(self, o):
        return o / SymReal(z3.ToReal(self.z))

    def __floordiv__(self, o):
        if isinstance(o, int) and o > 0:
            return _mki(self.z / z3.IntVal(o))  # z3 int div is floor for positive divisor
        return self.concretize() // o

    def __mod__(self, o):
        if isinstance(o, int) and o > 0:
            return _mki(self.z % z3.IntVal(o))
        return self.concretize() % o

    def __neg__(self):
        return _mki(-self.z)

    def __pos__(self):
        return self

    def __abs__(self):
        return _mki(z3.If(self.z >= 0, self.z, -self.z))
    __lt__ = _icmp(_LT)
    __le__ = _icmp(_LE)
    __gt__ = _icmp(_GT)
    __ge__ = _icmp(_GE)

    def __eq__(self, o):
        r = _icmp(_EQ)(self, o)
        return False if r is NotImplemented else r

    def __ne__(self, o):
        r = _icmp(_NE)(self, o)
        return True if r is NotImplemented else r

    def __bool__(self):
        return CUR.decide(self.z != 0)

    def concretize(self):
        """fork on solver models until no further value is feasible (exhaustive)"""
        c = CUR
        v = z3.simplify(self.z)
        if z3.is_int_value(v):
            return v.as_long()
        while True:
            if c.pos < len(c.prefix):
                d = c.prefix[c.pos]
                if not isinstance(d, tuple):
                    raise RuntimeError("prefix desync (int vs bool decision)")
                val, taken = d
                c.pos += 1
                if taken:
                    c.add(self.z == val)
                    return val
                c.add(self.z != val)
                continue
            m = c.get_model()
            val = m.eval(self.z, model_completion=True).as_long()
            keep = c.model
            ro = c._check(self.z != val)
            if ro == z3.unknown:
                raise Unknown("concretize")
            if ro == z3.sat:
                c.pending.append(c.prefix + [(val, False)])
                c.forks += 1
            c.model = keep
            c.prefix.append((val, True))
            c.pos += 1
            c.add(self.z == val)
            return val

    def __hash__(self):
        return hash(self.concretize())

    def __index__(self):
        return self.concretize()

    def __int__(self):
        return self.concretize()

    def __float__(self):
        return float(self.concretize())

    def __repr__(self):
        return f"SymInt({z3.simplify(self.z)})"


# --------------------------------------------------------------------------
# log-domain values and the uninterpreted Exp
_EXP = None


_LOGU = None


def _logu_fn():
    global _LOGU
    if _LOGU is None:
        _LOGU = z3.Function('LogU', z3.RealSort(), z3.RealSort())
    return _LOGU


def _exp_fn():
    global _EXP
    if _EXP is None:
        _EXP = z3.Function('Exp', z3.RealSort(), z3.RealSort())
    return _EXP


class LogVal:
    """the real number  log(p) + t   (p > 0 symbolic/concrete 'probability-like', t real).

    Keeps log-space code (scores, logits) inside linear/polynomial arithmetic:
    exp(LogVal(p, t)) = p * Exp(t) with Exp uninterpreted-but-positive and Exp(0)=1.
    """
    __slots__ = ('p', 't')

    def __init__(self, p, t=0):
        self.p = p
        self.t = t

    def __add__(self, o):
        if isinstance(o, LogVal):
            return LogVal(self.p * o.p, self.t + o.t)
        if _is_inf(o):
            return o
        return LogVal(self.p, self.t + o)
    __radd__ = __add__

    def __sub__(self, o):
        if isinstance(o, LogVal):
            return LogVal(self.p / o.p, self.t - o.t)
        if _is_inf(o):
            return -o
        return LogVal(self.p, self.t - o)

    def __rsub__(self, o):
        return LogVal(1 / self.p, o - self.t)

    def __neg__(self):
        return LogVal(1 / self.p, -self.t)

    def exp(self):
        return self.p * sym_exp(self.t)

    def to_real(self):
        """log(p) + t as a real number: log(p) is an uninterpreted value LogU(p) tied to Exp by Exp(LogU(p)) = p"""
        zp = toz(self.p)
        LU = _logu_fn()
        lt = LU(z3.simplify(zp))
        if CUR is not None:
            seen = CUR.__dict__.setdefault('logu_args', [])
            if not any(lt.eq(a) for a in seen):
                seen.append(lt)
                CUR.solver.add(_exp_fn()(lt) == zp)
                CUR.model = None
        return SymReal(lt) + self.t

    def __mul__(self, o):
        return self.to_real() * o
    __rmul__ = __mul__

    def __truediv__(self, o):
        return self.to_real() / o

    def _cmp(self, o, op):
        # compare log p1 + t1 ? log p2 + t2 only when t's are equal terms or o is -inf
        if _is_inf(o):
            return op(1.0, o)
        if isinstance(o, LogVal):
            dt = self.t - o.t
            if not is_sym(dt) and dt == 0:
                return op(self.p, o.p)
        raise Unmodelled("comparison of log-domain values with different offsets")

    def __lt__(self, o): return self._cmp(o, _LT)
    def __le__(self, o): return self._cmp(o, _LE)
    def __gt__(self, o): return self._cmp(o, _GT)
    def __ge__(self, o): return self._cmp(o, _GE)

    def __eq__(self, o):
        if _is_inf(o):
            return False
        return self._cmp(o, _EQ)

    def __ne__(self, o):
        if _is_inf(o):
            return True
        return self._cmp(o, _NE)

    def __hash__(self):
        return id(self)

    def __repr__(self):
        return f"LogVal(p={self.p!r}, t={self.t!r})"


def sym_exp(x):
    if isinstance(x, LogVal):
        return x.exp()
    if isinstance(x, (SymReal, SymInt, SymBool)):
        zx = z3.simplify(toz(x))
        if z3.is_rational_value(zx) and zx.numerator_as_long() == 0:
            return 1
        f = _exp_fn()
        e = f(zx)
        if CUR is not None:
            args = CUR.__dict__.setdefault('exp_args', [])
            if not args:
                CUR.solver.add(f(z3.RealVal(0)) == 1)
                CUR.model = None
                args.append(z3.RealVal(0))
            if not any(zx.eq(a) for a in args):
                CUR.solver.add(e > 0)
                CUR.model = None   # the cached model says nothing about Exp at a new argument
                for a in args:  # strict monotonicity, instantiated pairwise
                    CUR.solver.add(z3.Implies(a < zx, f(a) < e), z3.Implies(zx < a, e < f(a)))
                args.append(zx)
        return SymReal(e)
    if _is_inf(x):
        return 0.0 if x < 0 else x
    if x == 0:
        return 1
    return math.exp(x)


def sym_log(x):
    if isinstance(x, (SymReal, SymInt)):
        if not (x > 0):
            if x == 0:
                return -float('inf')
            raise ValueError("math domain error")
        return LogVal(x, 0)
    if isinstance(x, Fraction):
        if x == 1:
            return 0
        if x == 0:
            return -float('inf')
        return LogVal(x, 0)
    if x == 0:
        return -float('inf')
    return math.log(x)


# --------------------------------------------------------------------------
def zif(c, a, b):
    """If-merge of two numbers under a (possibly symbolic) condition"""
    if isinstance(c, SymBool):
        if _is_inf(a) or _is_inf(b):
            return a if c else b
        return _mk(z3.simplify(z3.If(c.z, toz(a), toz(b))))
    return a if c else b


def smax2(a, b):
    if not is_sym(a) and not is_sym(b):
        return a if a >= b else b
    if _is_inf(a):
        return b if a < 0 else a
    if _is_inf(b):
        return a if b < 0 else b
    if not MERGE[0]:
        return a if a >= b else b
    za, zb = toz(a), toz(b)
    return _mk(z3.simplify(z3.If(za >= zb, za, zb)))


def smin2(a, b):
    if not is_sym(a) and not is_sym(b):
        return a if a <= b else b
    if _is_inf(a):
        return b if a > 0 else a
    if _is_inf(b):
        return a if b > 0 else b
    if not MERGE[0]:
        return a if a <= b else b
    za, zb = toz(a), toz(b)
    return _mk(z3.simplify(z3.If(za <= zb, za, zb)))


def sall(xs):
    zs = []
    for x in xs:
        if isinstance(x, SymBool):
            zs.append(x.z)
        elif isinstance(x, (SymReal, SymInt)):
            zs.append(x.z != 0)
        elif not x:
            return False
    if not zs:
        return True
    return SymBool(z3.And(*zs)) if len(zs) > 1 else SymBool(zs[0])


def sany(xs):
    zs = []
    for x in xs:
        if isinstance(x, SymBool):
            zs.append(x.z)
        elif isinstance(x, (SymReal, SymInt)):
            zs.append(x.z != 0)
        elif x:
            return True
    if not zs:
        return False
    return SymBool(z3.Or(*zs)) if len(zs) > 1 else SymBool(zs[0])


def snot(x):
    if isinstance(x, SymBool):
        return SymBool(z3.Not(x.z))
    return not x


def sabs(x):
    return abs(x)


def ssum(xs, start=0):
    r = start
    for x in xs:
        r = r + x
    return r
