"""Minimal torch facade on top of the numpy facade: just what the controller evaluator and the entropy-regularised planner use."""
import types
import numpy as _np
import z3

from . import core, symnp
from .core import SymReal, SymBool, is_sym, sall
from .symnp import SymArray, _o, _wrap, elementwise, reduce_axis, has_sym


class TArr(SymArray):
    def __new__(cls, a):
        return _np.asarray(a, dtype=object).view(cls)

    def __array_finalize__(self, obj):
        pass

    # torch spellings
    def sum(self, axis=None, dim=None, keepdim=False, keepdims=False, **kw):
        ax = axis if axis is not None else dim
        r = reduce_axis(lambda xs: core.ssum(xs), self, ax, keepdim or keepdims)
        if not isinstance(r, _np.ndarray):
            z = _np.empty((), dtype=object)
            z[()] = r
            return z.view(TArr)      # 0-d tensor (supports .item())
        return _t(r)

    def view(self, *shape):
        if len(shape) == 1 and isinstance(shape[0], (tuple, list)):
            shape = tuple(shape[0])
        if shape and all(isinstance(x, (int, _np.integer)) for x in shape):
            return _t(_o(self).reshape(shape))
        return _np.ndarray.view(self, *shape)

    def reshape(self, *shape):
        if len(shape) == 1 and isinstance(shape[0], (tuple, list)):
            shape = tuple(shape[0])
        return _t(_o(self).reshape(shape))

    def contiguous(self):
        return self

    def unbind(self, dim=0):
        a = _np.moveaxis(_o(self), dim, 0)
        return tuple(_t(a[i]) if isinstance(a[i], _np.ndarray) else a[i] for i in range(a.shape[0]))

    def squeeze(self, dim=None):
        return _t(_np.squeeze(_o(self), axis=dim))

    def unsqueeze(self, dim):
        return _t(_np.expand_dims(_o(self), dim))

    def repeat_interleave(self, repeats, dim=None):
        a = _o(self)
        return _t(_np.repeat(a.reshape(-1) if dim is None else a, repeats, axis=(0 if dim is None else dim)))

    def expand(self, *sizes):
        shp = tuple(self.shape[i] if s == -1 else s for i, s in enumerate(sizes))
        return _t(_np.broadcast_to(_o(self), shp))

    def inverse(self):
        return _t(symnp._linv(self))

    def numpy(self):
        return _o(self).view(SymArray)

    def detach(self):
        return self

    def clone(self):
        return _t(_o(self).copy())

    def item(self):
        return _o(self).reshape(-1)[0]

    def __float__(self):
        return float(self.item())

    def softmax(self, dim=-1):
        return softmax(self, dim)

    def max(self, dim=None, axis=None, keepdim=False, **kw):
        ax = dim if dim is not None else axis
        r = SymArray.max(self, axis=ax, keepdims=keepdim)
        return _t(r) if isinstance(r, _np.ndarray) else r

    def abs(self):
        return _t(elementwise(abs, self))

    def log(self):
        return _t(elementwise(core.sym_log, self))

    def exp(self):
        return _t(elementwise(core.sym_exp, self))

    def all(self, *a, **k):
        return SymArray.all(self, *a, **k)

    def any(self, *a, **k):
        return SymArray.any(self, *a, **k)

    def __matmul__(self, o):
        return _t(_np.matmul(_o(self), _o(o)))

    def __rmatmul__(self, o):
        return _t(_np.matmul(_o(o), _o(self)))

    @property
    def T(self):
        return _t(_o(self).T)

    def __getitem__(self, idx):
        r = SymArray.__getitem__(self, idx)
        return _t(r) if isinstance(r, _np.ndarray) else r

    def __array_ufunc__(self, ufunc, method, *inputs, **kwargs):
        r = SymArray.__array_ufunc__(self, ufunc, method, *inputs, **kwargs)
        return _t(r) if isinstance(r, _np.ndarray) else r


def _t(r):
    if isinstance(r, _np.ndarray):
        return _o(r).view(TArr)
    return r


def softmax(a, dim=-1):
    """softmax over entries that may be log-domain values log(p) + t: p * Exp(t - max t) / sum (the shift is arbitrary)"""
    a = _o(a)

    def split(x):
        return (x.p, x.t) if isinstance(x, core.LogVal) else (1, x)

    def row(xs):
        pts = [split(x) for x in xs]
        if any(core._is_inf(t) for _, t in pts):
            pts = [(0, 0) if core._is_inf(t) and t < 0 else (p, t) for p, t in pts]
        m = None
        for p, t in pts:
            if not (not is_sym(p) and p == 0):
                m = t if m is None else core.smax2(m, t)
        es = [(0 if (not is_sym(p) and p == 0) else p * core.sym_exp(t - m)) for p, t in pts]
        z = core.ssum(es)
        return [e / z for e in es]
    a2 = _np.moveaxis(a, dim, -1)
    out = _np.empty(a2.shape, dtype=object)
    for idx in _np.ndindex(a2.shape[:-1]):
        r = row(list(a2[idx]))
        for k, v in enumerate(r):
            out[idx + (k,)] = v
    return _t(_np.moveaxis(out, -1, dim))


class TorchFacade(types.ModuleType):
    float64 = 'float64'
    float32 = 'float32'

    def __init__(self):
        super().__init__('symx_torch')

    def __getattr__(self, k):
        import torch
        return getattr(torch, k)

    def tensor(self, a, dtype=None, **kw):
        if isinstance(a, _np.ndarray):
            return _t(_o(a))
        return _t(_np.array(a, dtype=object))

    def as_tensor(self, a, dtype=None, **kw):
        return self.tensor(a)

    def ones(self, *shape, dtype=None, **kw):
        if len(shape) == 1 and isinstance(shape[0], (tuple, list)) or (len(shape) == 1 and hasattr(shape[0], '__iter__')):
            shape = tuple(shape[0])
        a = _np.empty(tuple(shape), dtype=object)
        a[...] = 1
        return _t(a)

    def zeros(self, *shape, dtype=None, **kw):
        if len(shape) == 1 and hasattr(shape[0], '__iter__'):
            shape = tuple(shape[0])
        a = _np.empty(tuple(shape), dtype=object)
        a[...] = 0
        return _t(a)

    def eye(self, n, dtype=None, **kw):
        a = _np.empty((n, n), dtype=object)
        a[...] = 0
        for i in range(n):
            a[i, i] = 1
        return _t(a)

    def einsum(self, spec, *ops):
        return _t(_np.einsum(spec, *[_o(o) for o in ops]))

    def allclose(self, a, b, rtol=1e-5, atol=1e-8, **kw):
        r = symnp._isclose(_o(a), _o(b), rtol=rtol, atol=atol)
        return sall(list(_o(r).flat)) if isinstance(r, _np.ndarray) else r

    def isclose(self, a, b, rtol=1e-5, atol=1e-8, **kw):
        return _t(symnp._isclose(_o(a), _o(b), rtol=rtol, atol=atol))

    def softmax(self, a, dim=-1, **kw):
        return softmax(a, dim)

    def log(self, a):
        return _t(elementwise(core.sym_log, a))

    def exp(self, a):
        return _t(elementwise(core.sym_exp, a))

    def abs(self, a):
        return _t(elementwise(abs, a))

    def nansum(self, a, dim=None, axis=None, **kw):
        ax = dim if dim is not None else axis
        return _t(reduce_axis(lambda xs: core.ssum(x for x in xs if not (isinstance(x, float) and x != x)), _o(a), ax))

    def clamp(self, a, min=None, max=None):
        r = _o(a)
        if min is not None:
            r = elementwise(core.smax2, r, min)
        if max is not None:
            r = elementwise(core.smin2, r, max)
        return _t(r)

    def where(self, c, x, y):
        return _t(symnp._where(c, x, y))

    def stack(self, xs, dim=0):
        return _t(_np.stack([_o(x) for x in xs], axis=dim))

    def finfo(self, dtype=None):
        import torch
        return torch.finfo(torch.float64)

    def is_tensor(self, x):
        return isinstance(x, TArr)

    Tensor = TArr

    def all(self, x):
        return sall(list(_o(x).flat))

    def any(self, x):
        return core.sany(list(_o(x).flat))

    def from_numpy(self, a):
        return _t(_o(a))

    class _LA:
        @staticmethod
        def solve(A, b):
            return _t(symnp._solve(A, b))

        @staticmethod
        def inv(A):
            return _t(symnp._linv(A))
    linalg = _LA()


TORCH = TorchFacade()
