"""Job scheduling over 16 processes, evidence files, known findings, replay."""
import os
import sys
import json
import time
import fnmatch
import hashlib
import importlib
import traceback
import multiprocessing as mp
from fractions import Fraction

ROOT = os.path.dirname(os.path.dirname(os.path.abspath(__file__)))
# development only (seed triage while a sweep runs): SYMX_DEV_TREE=<scratch tree> makes `check` import msdm from there and write
# evidence / replays under SYMX_DEV_OUT instead of /verif; registered commands never set these
OUT = os.environ.get('SYMX_DEV_OUT') or ROOT
EXIT_OK, EXIT_VIOLATION, EXIT_INCONCLUSIVE, EXIT_MACHINERY = 0, 1, 2, 3


def _load(pid):
    return importlib.import_module(f"harness.{pid.lower()}")


def _run_job(args):
    pid, hname, case, opts, tier = args
    t0 = time.time()
    try:
        from . import engine
        mod = _load(pid)
        fn = getattr(mod, hname)

        def h(sx):
            return fn(sx, **case)
        from . import core as _core
        _core.Ctx.LOGIC[0] = opts.get('logic')
        if tier == 'thorough' or os.environ.get('VERIF_CROSSCHECK'):
            engine.EXPORT['dir'] = os.path.join(ROOT, 'smt_export', pid)
        st = engine.explore(h, tier=tier, timeout_ms=opts.get('timeout_ms', 30000),
                            max_paths=opts.get('max_paths', 20000), budget_s=opts.get('budget_s', 900),
                            twin=opts.get('twin', 1))
    except BaseException as e:  # noqa: BLE001
        st = dict(paths=0, infeasible=0, cut=0, unknown=0, errors=[''.join(traceback.format_exception(e))[-3000:]],
                  unmodelled=[], queries=0, solver_s=0.0, obligations=0, discharged=0, inconclusive=[],
                  violations=[], unconfirmed=[], assumes=0, forks=0, twin_ok=0, twin_mismatch=[], samples=[],
                  exhausted=False, notes=[], real_checked=0, wall_s=time.time() - t0)
    st['harness'] = hname
    st['case'] = case
    return st


def _parse_model(d):
    out = {}
    for k, v in d.items():
        if v in ('True', 'False'):
            out[k] = (v == 'True')
        else:
            f = Fraction(v)
            out[k] = int(f) if f.denominator == 1 and '/' not in v and '.' not in v else f
    return out


def load_known():
    p = os.path.join(ROOT, 'known_findings.json')
    if not os.path.exists(p):
        return []
    return json.load(open(p)).get('findings', [])


def match_known(known, pid, hname, case, label):
    for k in known:
        if isinstance(k, str):
            continue  # "fixed: ..." entries suppress nothing
        if k.get('property') != pid:
            continue
        if not fnmatch.fnmatchcase(hname, k.get('harness', '*')):
            continue
        if not fnmatch.fnmatchcase(label, k.get('label', '*')):
            continue
        cm = k.get('case', {})
        if all(case.get(a) == b for a, b in cm.items()):
            return k
    return None


def run_property(pid, tier='quick', seed=0, procs=None, only=None):
    t0 = time.time()
    sys.path.insert(0, ROOT)
    mod = _load(pid)
    jobs = list(mod.jobs(tier))
    if only:
        jobs = [j for j in jobs if fnmatch.fnmatchcase(j[0], only)]
    # VERIF_SEED only permutes the order in which cases are visited
    import random
    random.Random(seed).shuffle(jobs)
    jobs.sort(key=lambda j: -j[2].get('cost', 1) if len(j) > 2 else 0)
    args = [(pid, j[0], j[1], (j[2] if len(j) > 2 else {}), tier) for j in jobs]
    from . import stubs
    stubs.preload()
    procs = procs or int(os.environ.get('VERIF_PROCS', '16'))
    results = []
    if procs <= 1 or len(args) <= 1:
        for a in args:
            results.append(_run_job(a))
    else:
        ctx = mp.get_context('fork')
        with ctx.Pool(min(procs, len(args)), maxtasksperchild=8) as pool:
            for r in pool.imap_unordered(_run_job, args, chunksize=1):
                results.append(r)
    cross = None
    xdir = os.path.join(ROOT, 'smt_export', pid)
    if (tier == 'thorough' or os.environ.get('VERIF_CROSSCHECK')) and os.path.isdir(xdir):
        import subprocess, shutil
        try:
            p = subprocess.run([sys.executable, os.path.join(ROOT, 'tools', 'crosscheck.py'), xdir, '200'], capture_output=True, text=True, timeout=3000)
            cross = json.loads(p.stdout.strip().splitlines()[-1])
        except Exception as e:  # noqa: BLE001
            cross = dict(error=str(e)[:200])
        shutil.rmtree(xdir, ignore_errors=True)
    return finish(pid, mod, tier, seed, results, time.time() - t0, cross)


def finish(pid, mod, tier, seed, results, wall, cross=None):
    known = load_known()
    tot = dict(paths=0, cut=0, infeasible=0, queries=0, solver_s=0.0, obligations=0, discharged=0,
               assumes=0, forks=0, twin_ok=0, real_checked=0, nontrivial=0)
    violations, knownhits, unconfirmed, errors, unmodelled, inconcl, mism, samples, notes = [], [], [], [], [], [], [], [], []
    nonexh = []
    per_h = {}
    for r in results:
        for k in tot:
            tot[k] += r.get(k, 0)
        ph = per_h.setdefault(r['harness'], dict(cases=0, paths=0, obligations=0, discharged=0, cut=0))
        ph['cases'] += 1
        ph['paths'] += r['paths']
        ph['cut'] += r['cut']
        ph['obligations'] += r['obligations']
        ph['discharged'] += r['discharged']
        for v in r['violations']:
            k = match_known(known, pid, r['harness'], r['case'], v['label'])
            (knownhits if k else violations).append((r, v, k))
        for v in r['unconfirmed']:
            unconfirmed.append((r, v))
        errors += [(r['harness'], r['case'], e) for e in r['errors']]
        unmodelled += [(r['harness'], r['case'], e) for e in r['unmodelled']]
        inconcl += [(r['harness'], r['case'], e) for e in r['inconclusive']]
        mism += [(r['harness'], r['case'], e) for e in r['twin_mismatch']]
        if not r['exhausted']:
            nonexh.append((r['harness'], r['case']))
        for s in r['samples'][:1]:
            if len(samples) < 6:
                samples.append(dict(harness=r['harness'], case=_js(r['case']), **s))
        for n in r['notes']:
            if len(notes) < 30 and n not in notes:
                notes.append(n)
    out_lines = []
    replay_dir = os.path.join(OUT, 'replays')
    os.makedirs(replay_dir, exist_ok=True)
    seen_known = set()
    for r, v, k in knownhits:
        key = (k.get('id') or k.get('label'), )
        if key in seen_known:
            continue
        seen_known.add(key)
        out_lines.append(f"KNOWN-FINDING: property={pid} {k.get('what', v['label'])}")
    seen_v = set()
    for r, v, _ in violations:
        key = (r['harness'], v['label'], str(r['case'].get('component', '')))
        if key in seen_v:
            continue
        seen_v.add(key)
        rec = dict(property=pid, harness=r['harness'], case=_js(r['case']), label=v['label'], model=v['model'],
                   tier=tier, replay_info=v.get('replay'))
        dg = hashlib.sha1(json.dumps(rec, sort_keys=True, default=str).encode()).hexdigest()[:10]
        path = os.path.join(replay_dir, f"{pid}-{dg}.json")
        json.dump(rec, open(path, 'w'), indent=1, default=str)
        out_lines.append(f"VIOLATION property={pid} replay={path}")
        out_lines.append(f"  harness={r['harness']} case={_js(r['case'])} label={v['label']}")
    for r, v in unconfirmed[:10]:
        out_lines.append(f"UNCONFIRMED property={pid} harness={r['harness']} case={_js(r['case'])} label={v['label']} model={v['model']} replay={v.get('replay')}")
    for h, c, e in errors[:5]:
        out_lines.append(f"HARNESS-ERROR property={pid} harness={h} case={_js(c)}\n{e}")
    for h, c, e in unmodelled[:5]:
        out_lines.append(f"UNMODELLED property={pid} harness={h} case={_js(c)}\n{e}")
    for h, c, e in inconcl[:10]:
        out_lines.append(f"INCONCLUSIVE property={pid} harness={h} case={_js(c)} label={e}")
    for h, c in nonexh[:10]:
        out_lines.append(f"INCONCLUSIVE property={pid} harness={h} case={_js(c)} label=budget-or-path-cap-reached")
    for h, c, e in mism[:5]:
        out_lines.append(f"TWIN-MISMATCH property={pid} harness={h} case={_js(c)} {e}")

    if violations:
        code = EXIT_VIOLATION
    elif unconfirmed or errors or unmodelled or (len(mism) > max(2, tot['twin_ok'])) or (cross and cross.get('disagreements')):
        code = EXIT_MACHINERY
    elif inconcl or nonexh:
        code = EXIT_INCONCLUSIVE
    elif tot['discharged'] == 0:
        out_lines.append(f"VACUOUS property={pid}: no obligation discharged")
        code = EXIT_MACHINERY
    else:
        code = EXIT_OK

    bounds = mod.bounds(tier) if hasattr(mod, 'bounds') else {}
    ev = dict(
        property_id=pid, tier=tier, seed=int(seed), level='other',
        coverage=dict(
            explanation=("bounded symbolic execution of the repository's real Python functions on z3-backed "
                         "values (every feasible path inside the stated bounds), each obligation discharged by a z3 "
                         "query path-condition AND NOT phi; encoding regenerated from /repo's working tree on every run"),
            functions_encoded=getattr(mod, 'FUNCTIONS', []),
            bounds=bounds,
            outside_bounds=getattr(mod, 'OUTSIDE', []),
            evaluations=tot['paths'] + tot['cut'],
            distinct_nontrivial=sum(r.get('nontrivial_paths', 0) for r in results),
            rule=("one evaluation = one feasible execution path (distinct decision prefix) of one harness case; "
                  "non-trivial = the path carried at least one obligation discharged by a solver query (unsat) "
                  "with a satisfiable path condition (reachability witness)"),
            cases=len(results), paths=tot['paths'], cut_paths=tot['cut'], infeasible_prefixes=tot['infeasible'],
            forks=tot['forks'], obligations=tot['obligations'], discharged=tot['discharged'],
            inconclusive=len(inconcl) + len(nonexh), queries=tot['queries'], solver_s=round(tot['solver_s'], 2),
            assumes=tot['assumes'], reachability_witnesses=tot['discharged'],
            traces_validated_against_impl=tot['twin_ok'], real_mode_obligations_checked=tot['real_checked'],
            per_harness=per_h, known_findings_reported=len(seen_known),
            exhaustive=(not nonexh and not inconcl),
            samples=samples or [dict(note='no sample recorded')],
            twin_mismatches=len(mism), cached_obligations=sum(r.get('cached', 0) for r in results),
            slowest_obligations=sorted([x for r in results for x in r.get('slowest', [])], reverse=True)[:8],
            notes=notes,
            solver=f"z3 {__import__('z3').get_version_string()}",
            cross_solver_recheck=cross if cross is not None else 'thorough tier only',
        ),
        assumptions=getattr(mod, 'ASSUMPTIONS', []) + [
            "floats are modelled as exact reals; rounding error is outside the claim (counterexamples are replayed in IEEE arithmetic on the unmodified code before being reported)",
            "z3 is trusted for unsat answers",
        ],
        wall_s=round(wall, 2), violations=len(seen_v),
    )
    os.makedirs(os.path.join(OUT, 'evidence'), exist_ok=True)
    json.dump(ev, open(os.path.join(OUT, 'evidence', f"{pid}.json"), 'w'), indent=1, default=str)
    summary = (f"[{pid} {tier}] cases={len(results)} paths={tot['paths']} cut={tot['cut']} obligations={tot['obligations']} "
               f"discharged={tot['discharged']} queries={tot['queries']} solver_s={tot['solver_s']:.1f} twins_ok={tot['twin_ok']} "
               f"violations={len(seen_v)} known={len(seen_known)} wall={wall:.1f}s exit={code}")
    return code, out_lines + [summary]


def _js(x):
    try:
        json.dumps(x)
        return x
    except TypeError:
        return json.loads(json.dumps(x, default=str))


def replay(path):
    sys.path.insert(0, ROOT)
    from . import engine
    rec = json.load(open(path))
    pid = rec['property']
    mod = _load(pid)
    fn = getattr(mod, rec['harness'])
    case = rec['case']
    model = _parse_model(rec['model'])

    def h(sx):
        return fn(sx, **case)
    ok, info = engine.confirm_violation(h, rec['label'], model, 60000, rec.get('tier', 'quick'))
    print(json.dumps(dict(reproduced=ok, label=rec['label'], info=info), indent=1, default=str))
    if ok:
        print(f"VIOLATION property={pid} replay={path}")
        return EXIT_VIOLATION
    return EXIT_OK


def main(argv=None):
    import argparse
    ap = argparse.ArgumentParser()
    ap.add_argument('property', nargs='?')
    ap.add_argument('--tier', default=os.environ.get('VERIF_TIER', 'quick'))
    ap.add_argument('--replay')
    ap.add_argument('--only')
    ap.add_argument('--procs', type=int)
    a = ap.parse_args(argv)
    if a.replay:
        return replay(a.replay)
    seed = int(os.environ.get('VERIF_SEED', '0') or 0)
    code, lines = run_property(a.property, a.tier, seed, a.procs, a.only)
    for l in lines:
        print(l)
    return code
