"""Environment stubs: random (nondeterministic / scripted), math, scipy helpers, and the
context manager that swaps them into the modules under test."""
import sys
import math as _math
import random as _random
import types
import contextlib
import numpy as _np
import z3
from fractions import Fraction

from . import core, symnp
from .core import SymReal, SymInt, SymBool, LogVal, is_sym, Unmodelled, Infeasible


# --------------------------------------------------------------------------
class Taint:
    """reads / writes of process-global generators observed during a run"""

    def __init__(self):
        self.reads = []
        self.writes = []


TAINT = Taint()


def _ctx():
    return core.CUR


class NondetStream:
    """stands for random.Random(seed): every draw is a fresh symbolic choice, so exploring
    all paths explores every sequence of outcomes any seed could produce.  In REAL mode the
    draws are read back from the model (scripted generator)."""

    def __init__(self, seed=None, tag='rng'):
        c = _ctx()
        k = c.counter('stream')
        self.tag = f"{tag}{k}"
        self.seed_value = seed
        self.n = 0
        self.log = []  # (kind, population, weights, picked_index)
        self._draws = []

    def seed(self, s=None):
        self.seed_value = s

    def _name(self, kind):
        self.n += 1
        return f"{self.tag}.{kind}{self.n}"

    def _pick_index(self, n, weights=None):
        c = _ctx()
        name = self._name('pick')
        if n <= 0:
            raise IndexError("Cannot choose from an empty sequence")
        if c.mode == 'real':
            if name not in c.given:
                c.missing.append(name)
                iv = 0
                if weights is not None:
                    iv = next((i for i, w in enumerate(weights) if w > 0), 0)
            else:
                iv = int(c.given[name])
            c.inputs[name] = (None, 'int')
            return min(max(iv, 0), n - 1)
        zv = z3.Int(name)
        c.inputs[name] = (zv, 'int')
        c.add(z3.And(zv >= 0, zv <= n - 1))
        if n == 1:
            c.add(zv == 0)
            return 0
        iv = SymInt(zv).concretize()
        return iv

    def random(self):
        c = _ctx()
        name = self._name('u')
        if c.mode == 'real':
            if name not in c.given:
                c.missing.append(name)
            c.inputs[name] = (None, 'real')
            return float(c.given.get(name, 0.5))
        zv = z3.Real(name)
        c.inputs[name] = (zv, 'real')
        c.add(z3.And(zv >= 0, zv < 1))
        # contract of the stub: successive uniform draws of one stream are pairwise distinct
        for prev in self._draws:
            c.add(zv != prev)
        self._draws.append(zv)
        return SymReal(zv)

    def choices(self, population, weights=None, *, cum_weights=None, k=1):
        population = list(population)
        if cum_weights is not None:
            if weights is not None:
                raise TypeError('Cannot specify both weights and cumulative weights')
            cw = list(cum_weights)       # same law as weights = successive differences
            weights = [cw[0]] + [b - a for a, b in zip(cw, cw[1:])]
        out = []
        for _ in range(k):
            if weights is None:
                i = self._pick_index(len(population))
            else:
                weights = list(weights)
                if len(weights) != len(population):
                    raise ValueError('The number of weights does not match the population')
                i = self._pick_index(len(population), weights)
                w = weights[i]
                # a generator only ever returns positive-weight items
                if is_sym(w):
                    pos = (w > 0)
                    if isinstance(pos, SymBool):
                        _ctx().add(pos.z)
                        _ctx().model = None
                        if _ctx()._check() != z3.sat:
                            raise Infeasible()
                    elif not pos:
                        raise Infeasible()
                elif not (w > 0):
                    if _ctx().mode == 'real':
                        _ctx().missing.append(self.tag + ':zero-weight-pick')
                    else:
                        raise Infeasible()
            self.log.append(('choices', population, weights, i))
            out.append(population[i])
        return out

    def choice(self, seq):
        seq = list(seq) if not isinstance(seq, (list, tuple)) else seq
        if len(seq) == 0:
            raise IndexError('Cannot choose from an empty sequence')
        i = self._pick_index(len(seq))
        self.log.append(('choice', seq, None, i))
        return seq[i]

    def shuffle(self, x):
        pool = list(x)
        out = []
        while pool:
            i = self._pick_index(len(pool))
            out.append(pool.pop(i))
        x[:] = out

    def sample(self, population, k):
        pool = list(population)
        out = []
        for _ in range(k):
            i = self._pick_index(len(pool))
            out.append(pool.pop(i))
        return out

    def randint(self, a, b):
        return a + self._pick_index(b - a + 1)

    def randrange(self, a, b=None):
        if b is None:
            a, b = 0, a
        return a + self._pick_index(b - a)

    def getstate(self):
        return ('nondet', self.tag, self.n)

    def setstate(self, s):
        pass


class RandomFacade(types.ModuleType):
    """stands for the `random` module: Random(seed) is a private nondeterministic stream;
    module-level functions are the process-global generator (reads are tainted)."""

    def __init__(self):
        super().__init__('symx_random')
        self._global = None

    def Random(self, seed=None):
        return NondetStream(seed)

    def _g(self, what):
        TAINT.reads.append(what)
        if self._global is None or getattr(self._global, '_ctx', None) is not _ctx():
            self._global = NondetStream(None, tag='GLOBALrng')
            self._global._ctx = _ctx()
        return self._global

    def random(self): return self._g('random.random').random()
    def choice(self, seq): return self._g('random.choice').choice(seq)
    def choices(self, *a, **k): return self._g('random.choices').choices(*a, **k)
    def shuffle(self, x): return self._g('random.shuffle').shuffle(x)
    def sample(self, p, k): return self._g('random.sample').sample(p, k)
    def randint(self, a, b): return self._g('random.randint').randint(a, b)

    def seed(self, s=None):
        TAINT.writes.append('random.seed')

    def __getattr__(self, k):
        return getattr(_random, k)


class MathFacade(types.ModuleType):
    def __init__(self):
        super().__init__('symx_math')

    def __getattr__(self, k):
        return getattr(_math, k)

    def exp(self, x):
        if is_sym(x) or isinstance(x, Fraction):
            return core.sym_exp(x)
        return _math.exp(x)

    def log(self, x, *base):
        if base:
            raise Unmodelled("math.log with base")
        if is_sym(x) or isinstance(x, Fraction):
            return core.sym_log(x)
        return _math.log(x)

    def isclose(self, a, b, *, rel_tol=1e-9, abs_tol=0.0):
        if not is_sym(a) and not is_sym(b):
            return _math.isclose(a, b, rel_tol=rel_tol, abs_tol=abs_tol)
        d = abs(a - b)
        m = core.smax2(abs(a), abs(b))
        return d <= core.smax2(rel_tol * m, abs_tol)

    def isinf(self, x):
        return (not is_sym(x)) and _math.isinf(x)

    def isnan(self, x):
        return (not is_sym(x)) and _math.isnan(x)

    def fabs(self, x):
        return abs(x)

    def floor(self, x):
        if is_sym(x):
            raise Unmodelled("floor of symbolic")
        return _math.floor(x)

    def ceil(self, x):
        if is_sym(x):
            raise Unmodelled("ceil of symbolic")
        return _math.ceil(x)


# --------------------------------------------------------------------------
def floyd_warshall_facade(adj, *a, **k):
    from scipy.sparse.csgraph import floyd_warshall as fw
    adj = _np.asarray(adj)
    if adj.dtype == object:
        if symnp.is_mask(adj) or symnp.has_sym(adj):
            adj = symnp.concretize_array(adj)
        else:
            adj = symnp.to_float(adj)      # edge weights (e.g. a Markov chain's probabilities)
    r = fw(adj, *a, **k)
    # returned as a facade array so that a (possibly symbolic) mask used to index it is concretised
    return r.view(symnp.SymArray)


def cdist_facade(a, b, *args, **kw):
    from scipy.spatial.distance import cdist
    return cdist(symnp.to_float(a), symnp.to_float(b), *args, **kw)


class _Warnings(types.ModuleType):
    def __init__(self):
        super().__init__('symx_warnings')
        self.issued = []

    def warn(self, msg, *a, **k):
        self.issued.append(str(msg))

    def __getattr__(self, k):
        import warnings
        return getattr(warnings, k)


_PRELOADED = False


def preload():
    """import every module under test so that reference swapping sees them"""
    global _PRELOADED
    if _PRELOADED:
        return
    import importlib
    import warnings
    with warnings.catch_warnings():
        warnings.simplefilter('ignore')
        for m in ['msdm', 'msdm.core.distributions', 'msdm.core.table', 'msdm.core.mdp', 'msdm.core.pomdp',
                  'msdm.core.semimdp', 'msdm.core.semimdp.semimdp', 'msdm.core.semimdp.option', 'msdm.core.distributions.utils', 'msdm.core.mdp.deterministic_shortest_path', 'msdm.core.pomdp.beliefmdp',
                  'msdm.core.pomdp.finitestatecontroller', 'msdm.core.pomdp.alphavectorpolicy',
                  'msdm.core.stochasticgame', 'msdm.core.assignment', 'msdm.core.utils.dictutils',
                  'msdm.core.utils.gridstringutils',
                  'msdm.algorithms', 'msdm.algorithms.valueiteration', 'msdm.algorithms.policyiteration',
                  'msdm.algorithms.laostar', 'msdm.algorithms.lrtdp', 'msdm.algorithms.search',
                  'msdm.algorithms.tdlearning', 'msdm.algorithms.rmax', 'msdm.algorithms.qmdp',
                  'msdm.algorithms.pointbasedvalueiteration', 'msdm.algorithms.multichainpolicyiteration',
                  'msdm.algorithms.entregpolicyiteration', 'msdm.algorithms.fscboundedpolicyiteration',
                  'msdm.algorithms.fscgradientascent',
                  'msdm.domains', 'msdm.domains.gridworld.mdp', 'msdm.domains.gridmdp.windygridworld',
                  'msdm.domains.cliffwalking', 'msdm.domains.tiger', 'msdm.domains.loadunload',
                  'msdm.domains.heavenorhell', 'msdm.domains.gridgame.tabulargridgame', 'msdm.core.distributions.discretefactortable']:
            try:
                importlib.import_module(m)
            except Exception as e:  # noqa: BLE001
                print(f"preload: cannot import {m}: {e}")
    _PRELOADED = True


NP = symnp.np
RANDOM = RandomFacade()
MATH = MathFacade()
WARNINGS = _Warnings()


def _replacements(extra=None):
    import scipy.sparse.csgraph as csg
    import scipy.spatial.distance as ssd
    import warnings
    import scipy.special as ssp
    rep = {id(_np): NP, id(_random): RANDOM, id(_math): MATH, id(warnings): WARNINGS,
           id(csg.floyd_warshall): floyd_warshall_facade, id(ssd.cdist): cdist_facade,
           id(ssp.softmax): softmax_facade, id(ssp.logsumexp): logsumexp_facade}
    try:
        import torch
        from . import symtorch
        rep[id(torch)] = symtorch.TORCH
    except ImportError:
        pass
    if extra:
        rep.update(extra)
    return rep


_MISSING = object()


class _SymFloatMeta(type):
    def __instancecheck__(cls, x):
        return isinstance(x, float)

    def __subclasscheck__(cls, c):
        return issubclass(c, float)

    def __eq__(cls, o):
        return o is float or o is cls

    def __hash__(cls):
        return hash(float)


class SymFloat(float, metaclass=_SymFloatMeta):
    """what the name `float` means inside the modules under test during symbolic runs: float(x) keeps symbolic reals and exact
    rationals as they are (a conversion to the float type would realise the value), everything else is the builtin.
    As a dtype / in isinstance / compared with the builtin it behaves as `float`."""
    def __new__(cls, x=0.0):
        if is_sym(x) or isinstance(x, Fraction):
            return x
        return float(x)


@contextlib.contextmanager
def installed(prefixes=('msdm.',), extra=None, only=None):
    """swap numpy / random / math / scipy references held in the globals of the modules under
    test (matched by object identity) for their facades; restored on exit."""
    preload()
    rep = _replacements(extra)
    undo = []
    for name, mod in list(sys.modules.items()):
        if mod is None or not any(name.startswith(p) or name == p.rstrip('.') for p in prefixes):
            continue
        if only is not None and name not in only:
            continue
        d = getattr(mod, '__dict__', None)
        if d is None:
            continue
        for k, v in list(d.items()):
            r = rep.get(id(v))
            if r is not None:
                undo.append((d, k, v))
                d[k] = r
        if 'float' not in d:
            d['float'] = SymFloat
            undo.append((d, 'float', _MISSING))
    TAINT.reads.clear()
    TAINT.writes.clear()
    try:
        yield
    finally:
        for d, k, v in undo:
            if v is _MISSING:
                d.pop(k, None)
            else:
                d[k] = v


@contextlib.contextmanager
def facade(sx, extra=None, random_only=False):
    """harness-side entry: full facades in SYM mode; in REAL mode only `random` is replaced
    (by the scripted generator), numpy/math/scipy stay real."""
    if sx.mode == 'sym' and not random_only:
        with installed(extra=extra):
            yield
    else:
        import warnings
        preload()
        rep = {id(_random): RANDOM}
        if sx.mode == 'sym':
            rep[id(_math)] = MATH       # transparent on concrete numbers; symbolic isclose / exp / log
        undo = []
        for name, mod in list(sys.modules.items()):
            if mod is None or not name.startswith('msdm.'):
                continue
            d = mod.__dict__
            for k, v in list(d.items()):
                if id(v) in rep:
                    undo.append((d, k, v))
                    d[k] = rep[id(v)]
        TAINT.reads.clear()
        TAINT.writes.clear()
        try:
            with warnings.catch_warnings():
                warnings.simplefilter('ignore')
                yield
        finally:
            for d, k, v in undo:
                d[k] = v


# --------------------------------------------------------------------------
def merged_max(*args, key=None, **kw):
    """builtin max with If-merging on symbolic numbers (identical value semantics, no fork)"""
    import builtins
    if key is not None:
        return builtins.max(*args, key=key, **kw)
    xs = list(args[0]) if len(args) == 1 else list(args)
    if not xs:
        if 'default' in kw:
            return kw['default']
        raise ValueError("max() arg is an empty sequence")
    if not any(is_sym(x) for x in xs):
        return builtins.max(xs)
    r = xs[0]
    for x in xs[1:]:
        r = core.smax2(r, x)
    return r


def merged_min(*args, key=None, **kw):
    import builtins
    if key is not None:
        return builtins.min(*args, key=key, **kw)
    xs = list(args[0]) if len(args) == 1 else list(args)
    if not xs:
        if 'default' in kw:
            return kw['default']
        raise ValueError("min() arg is an empty sequence")
    if not any(is_sym(x) for x in xs):
        return builtins.min(xs)
    r = xs[0]
    for x in xs[1:]:
        r = core.smin2(r, x)
    return r


@contextlib.contextmanager
def shadow(sx, module_names, names=('max', 'min')):
    """SYM mode only: give the named modules merging versions of builtins max/min"""
    if sx.mode != 'sym':
        yield
        return
    impl = {'max': merged_max, 'min': merged_min}
    undo = []
    for mn in module_names:
        d = sys.modules[mn].__dict__
        for n in names:
            undo.append((d, n, d.get(n, None), n in d))
            d[n] = impl[n]
    try:
        yield
    finally:
        for d, n, old, had in undo:
            if had:
                d[n] = old
            else:
                d.pop(n, None)


@contextlib.contextmanager
def fork_isclose(merge=False):
    """decide isclose (and, unless merge=True, max/min/abs) by forking: more paths, purely linear queries"""
    old = symnp.FORK_ISCLOSE[0]
    oldm = core.MERGE[0]
    symnp.FORK_ISCLOSE[0] = True
    core.MERGE[0] = merge
    try:
        yield
    finally:
        symnp.FORK_ISCLOSE[0] = old
        core.MERGE[0] = oldm


# ==========================================================================================
# Deterministic-uninterpreted generators (C13): the k-th draw of a stream created from `seed`
# is U(seed, k) for an uninterpreted U, so two streams with equal seeds yield equal draws.
_UFN = {}


def _ufn(name, *sorts):
    if name not in _UFN:
        _UFN[name] = z3.Function(name, *sorts)
    return _UFN[name]


def _seed_term(seed):
    if isinstance(seed, SymInt):
        return seed.z
    if isinstance(seed, bool):
        return z3.IntVal(int(seed))
    if isinstance(seed, int):
        return z3.IntVal(seed)
    return None


class DetStream:
    """random.Random(seed) with draws that are uninterpreted-but-deterministic functions of (seed, draw index)"""
    created = []      # (stream, seed as given) for plumbing checks

    def __init__(self, seed=None, family='py'):
        c = _ctx()
        self.family = family
        self.seed_given = seed
        st = _seed_term(seed)
        if st is None:
            # unseeded / seeded from something unmodelled: behaves like the process-global entropy source
            k = c.counter('unseeded')
            st = z3.Int(f"ENTROPY!{k}")
            TAINT.reads.append(f'{family}.Random(seed={seed!r}) takes OS entropy')
        self.seed_term = st
        self.k = 0
        DetStream.created.append((self, seed))

    def _u(self):
        c = _ctx()
        self.k += 1
        U = _ufn('U_' + self.family, z3.IntSort(), z3.IntSort(), z3.RealSort())
        t = U(self.seed_term, z3.IntVal(self.k))
        c.add(z3.And(t >= 0, t < 1))
        c.model = None
        return SymReal(t)

    def random(self):
        return self._u()

    def uniform(self, a, b):
        return a + (b - a) * self._u()

    def _index(self, n):
        if n <= 0:
            raise IndexError('Cannot choose from an empty sequence')
        if n == 1:
            self.k += 1
            return 0
        u = self._u()
        for i in range(n - 1):
            if u < Fraction(i + 1, n):
                return i
        return n - 1

    def choice(self, seq):
        seq = list(seq) if not isinstance(seq, (list, tuple)) else seq
        return seq[self._index(len(seq))]

    def choices(self, population, weights=None, *, cum_weights=None, k=1):
        population = list(population)
        if cum_weights is not None:
            if weights is not None:
                raise TypeError('Cannot specify both weights and cumulative weights')
            cw = list(cum_weights)
            weights = [cw[0]] + [b - a for a, b in zip(cw, cw[1:])]
        out = []
        for _ in range(k):
            if weights is None:
                out.append(population[self._index(len(population))])
                continue
            ws = list(weights)
            tot = core.ssum(ws)
            u = self._u() * tot
            acc = 0
            pick = len(ws) - 1
            for i, w in enumerate(ws[:-1]):
                acc = acc + w
                if u < acc:
                    pick = i
                    break
            out.append(population[pick])
        return out

    def shuffle(self, x):
        pool = list(x)
        out = []
        while pool:
            out.append(pool.pop(self._index(len(pool))))
        x[:] = out

    def sample(self, population, k):
        pool = list(population)
        return [pool.pop(self._index(len(pool))) for _ in range(k)]

    def randint(self, a, b):
        return a + self._index(b - a + 1)

    def seed(self, s=None):
        self.__init__(s, self.family)

    def getstate(self):
        return ('det', self.seed_term, self.k)


class GlobalStream(DetStream):
    """a process-global generator: its state is arbitrary (fresh seed term per run), every use is tainted"""

    def __init__(self, family):
        c = _ctx()
        k = c.counter('globalstate')
        self.family = family
        self.seed_given = None
        self.seed_term = z3.Int(f"GLOBALSTATE_{family}!{k}")
        self.k = 0

    def _u(self):
        TAINT.reads.append(f'global {self.family} generator consulted')
        return super()._u()


class DetRandomFacade(types.ModuleType):
    """`random` module for reproducibility checks"""

    def __init__(self):
        super().__init__('symx_random_det')
        self._g = None
        self.seeds = []

    def Random(self, seed=None):
        self.seeds.append(seed)
        return DetStream(seed, 'py')

    def new_run(self):
        """a different prior state of the global generator for the next run"""
        self._g = GlobalStream('py')

    def _glob(self):
        if self._g is None or getattr(self._g, '_c', None) is not _ctx():
            self._g = GlobalStream('py')
            self._g._c = _ctx()
        return self._g

    def random(self): return self._glob().random()
    def choice(self, seq): return self._glob().choice(seq)
    def choices(self, *a, **k): return self._glob().choices(*a, **k)
    def shuffle(self, x): return self._glob().shuffle(x)
    def sample(self, p, k): return self._glob().sample(p, k)
    def randint(self, a, b): return self._glob().randint(a, b)
    def uniform(self, a, b): return self._glob().uniform(a, b)

    def seed(self, s=None):
        TAINT.writes.append('random.seed')

    def __getattr__(self, k):
        return getattr(_random, k)


DET_RANDOM = DetRandomFacade()


@contextlib.contextmanager
def det_random(sx):
    """swap `random` for the deterministic-uninterpreted model in every msdm module (SYM mode only)"""
    preload()
    undo = []
    if sx.mode == 'sym':
        for name, mod in list(sys.modules.items()):
            if mod is None or not name.startswith('msdm.'):
                continue
            d = mod.__dict__
            for k, v in list(d.items()):
                if v is _random:
                    undo.append((d, k, v))
                    d[k] = DET_RANDOM
    TAINT.reads.clear()
    TAINT.writes.clear()
    DET_RANDOM.seeds.clear()
    DetStream.created.clear()
    try:
        yield DET_RANDOM
    finally:
        for d, k, v in undo:
            d[k] = v


class SaltedOrderSet(set):
    """a set whose iteration / pop order over hash-randomised elements (anything containing a str) is chosen by the
    solver per interpreter salt; sets of ints / tuples of ints iterate in CPython's fixed order"""
    salt = [0]

    @staticmethod
    def _stable(e):
        if isinstance(e, (int, float, bool)) or e is None:
            return True
        if isinstance(e, (tuple, frozenset)):
            return all(SaltedOrderSet._stable(x) for x in e)
        return False

    def _order(self):
        items = list(set.__iter__(self))
        if len(items) <= 1 or all(self._stable(e) for e in items):
            return items
        c = _ctx()
        K = _ufn('HashOrderKey', z3.IntSort(), z3.StringSort(), z3.RealSort())
        keyed = []
        for e in items:
            t = K(z3.IntVal(self.salt[0]), z3.StringVal(repr(e)))
            keyed.append((SymReal(t), e))
        for i in range(len(keyed)):
            for j in range(i + 1, len(keyed)):
                c.add(keyed[i][0].z != keyed[j][0].z)
        c.model = None
        # insertion sort with symbolic comparisons (forks over the orders this salt can produce)
        out = []
        for kv in keyed:
            pos = len(out)
            for idx in range(len(out)):
                if kv[0] < out[idx][0]:
                    pos = idx
                    break
            out.insert(pos, kv)
        return [e for _, e in out]

    def __iter__(self):
        return iter(self._order())

    # set algebra keeps the salted order (the builtin operators would hand back a plain set)
    def __or__(self, o): return SaltedOrderSet(set.__or__(self, o))
    def __ror__(self, o): return SaltedOrderSet(set.__or__(self, o))
    def __and__(self, o): return SaltedOrderSet(set.__and__(self, o))
    def __rand__(self, o): return SaltedOrderSet(set.__and__(self, o))
    def __sub__(self, o): return SaltedOrderSet(set.__sub__(self, o))
    def __xor__(self, o): return SaltedOrderSet(set.__xor__(self, o))
    def union(self, *o): return SaltedOrderSet(set.union(self, *o))
    def intersection(self, *o): return SaltedOrderSet(set.intersection(self, *o))
    def difference(self, *o): return SaltedOrderSet(set.difference(self, *o))
    def copy(self): return SaltedOrderSet(set.copy(self))

    def pop(self):
        if not len(self):
            raise KeyError('pop from an empty set')
        e = self._order()[0]
        set.remove(self, e)
        return e


# --------------------------------------------------------------------------
# scipy.special.softmax / logsumexp over log-domain values (discrete factor tables)
def _split_logval(x):
    if isinstance(x, LogVal):
        return x.p, x.t
    return 1, x


def softmax_facade(scores, axis=None, **kw):
    xs = list(scores)
    if not any(is_sym(x) or isinstance(x, (LogVal, Fraction)) for x in xs):
        from scipy.special import softmax as sm
        return sm(_np.asarray(xs, dtype=float))
    pts = []
    for x in xs:
        if core._is_inf(x) and x < 0:
            pts.append((0, 0))
        else:
            pts.append(_split_logval(x))
    m = None
    for p, t in pts:
        if not (not is_sym(p) and p == 0):
            m = t if m is None else core.smax2(m, t)
    es = [(0 if (not is_sym(p) and p == 0) else p * core.sym_exp(t - m)) for p, t in pts]
    z = core.ssum(es)
    return [e / z for e in es]


def logsumexp_facade(scores, **kw):
    xs = list(scores)
    if not any(is_sym(x) or isinstance(x, (LogVal, Fraction)) for x in xs):
        from scipy.special import logsumexp as lse
        return lse(_np.asarray(xs, dtype=float))
    tot = core.ssum(core.sym_exp(x) for x in xs if not (core._is_inf(x) and x < 0))
    return core.sym_log(tot)
