"""Harness session (`Sx`), path exploration, violation confirmation by REAL-mode replay."""
import math
import time
import traceback
import contextlib
import z3
from fractions import Fraction

from . import core
from .core import (SymReal, SymInt, SymBool, LogVal, Infeasible, Unknown, PathCut,
                   Unmodelled, toz, tob, is_sym)

FLOAT_SLACK = 1e-7
TOL = Fraction(1, 10**9)  # default slack of equalities: absorbs constants the code itself computes in floats (1/3)  # extra tolerance when an obligation is evaluated on IEEE floats (REAL mode)


class ExpectedRaise(Exception):
    pass


class PathEnd(BaseException):
    """the path ends after an obligation that fails for all of its values (violations are kept)"""


def _frac(v):
    """z3 numeral -> Fraction / int / bool"""
    if z3.is_int_value(v):
        return v.as_long()
    if z3.is_rational_value(v):
        return Fraction(v.numerator_as_long(), v.denominator_as_long())
    if z3.is_true(v):
        return True
    if z3.is_false(v):
        return False
    if z3.is_algebraic_value(v):
        a = v.approx(20)
        return Fraction(a.numerator_as_long(), a.denominator_as_long())
    raise ValueError(f"not a numeral: {v}")


def _isnum(x):
    return isinstance(x, (int, float, Fraction)) or (core._np is not None and isinstance(x, core._NPNUM))


EXPORT = dict(dir=None, n=0, written=0)   # cross-solver re-check: a sample of discharged obligations as SMT-LIB2


def _export(c, neg, label):
    import os
    EXPORT['n'] += 1
    n = EXPORT['n']
    if EXPORT['written'] >= 25 or not (n <= 4 or n % 61 == 0):
        return
    try:
        s2 = z3.Solver()
        s2.add(*c.solver.assertions())
        s2.add(neg)
        txt = s2.to_smt2()
        os.makedirs(EXPORT['dir'], exist_ok=True)
        fn = os.path.join(EXPORT['dir'], f"ob_{os.getpid()}_{n}.smt2")
        with open(fn, 'w') as f:
            f.write("; obligation: " + label.replace(chr(10), ' ') + chr(10) + "(set-logic ALL)" + chr(10) + txt)
        EXPORT['written'] += 1
    except Exception:  # noqa: BLE001  (export is best effort)
        pass


ROUND_VALUES = [Fraction(k, 2) for k in range(-6, 7)]
MARGIN = z3.RealVal('1/1000000')


import re as _re
_DRAW = _re.compile(r'(\.(pick|u)\d+$)|zero-weight-pick')


def _improvised(missing):
    """generator draws the real run asked for although the replayed model does not define them (it left the predicted path)"""
    return [m for m in missing if _DRAW.search(str(m))]


def _isnan(x):
    return isinstance(x, float) and x != x


def _with_margin(e, pol):
    """the branch condition e (taken with polarity pol) strengthened so that it holds with a margin: a witness satisfying the
    strengthened path condition is INTERIOR to the path, so floating-point evaluation of the same comparisons agrees with it"""
    k = e.decl().kind() if z3.is_app(e) else None
    ch = e.children() if z3.is_app(e) else []
    if k == z3.Z3_OP_NOT:
        return _with_margin(ch[0], not pol)
    if k == z3.Z3_OP_AND:
        parts = [_with_margin(c, pol) for c in ch]
        return z3.And(*parts) if pol else z3.Or(*parts)
    if k == z3.Z3_OP_OR:
        parts = [_with_margin(c, pol) for c in ch]
        return z3.Or(*parts) if pol else z3.And(*parts)
    if k in (z3.Z3_OP_EQ, z3.Z3_OP_IFF) and len(ch) == 2 and z3.is_bool(ch[0]):
        a, b = ch
        same = z3.Or(z3.And(_with_margin(a, True), _with_margin(b, True)), z3.And(_with_margin(a, False), _with_margin(b, False)))
        diff = z3.Or(z3.And(_with_margin(a, True), _with_margin(b, False)), z3.And(_with_margin(a, False), _with_margin(b, True)))
        return same if pol else diff
    if k == z3.Z3_OP_XOR and len(ch) == 2:
        return _with_margin(ch[0] == ch[1], not pol)
    if k == z3.Z3_OP_IMPLIES:
        a, b = ch
        return z3.Or(_with_margin(a, False), _with_margin(b, True)) if pol else z3.And(_with_margin(a, True), _with_margin(b, False))
    if k in (z3.Z3_OP_LE, z3.Z3_OP_LT, z3.Z3_OP_GE, z3.Z3_OP_GT) and z3.is_real(ch[0]):
        a, b = ch
        if k in (z3.Z3_OP_GE, z3.Z3_OP_GT):
            a, b = b, a        # a <=/< b
        return (a <= b - MARGIN) if pol else (a >= b + MARGIN)
    if k == z3.Z3_OP_EQ and z3.is_real(ch[0]):
        a, b = ch
        return (a == b) if pol else z3.Or(a >= b + MARGIN, a <= b - MARGIN)
    if k == z3.Z3_OP_DISTINCT and len(ch) == 2 and z3.is_real(ch[0]):
        a, b = ch
        return z3.Or(a >= b + MARGIN, a <= b - MARGIN) if pol else (a == b)
    return e if pol else z3.Not(e)


def interior_model(c):
    """a generic witness that satisfies every branch decision of the path with a margin, or None"""
    extra = [_with_margin(e, ch) for e, ch in c.decisions]
    return generic_model(c, *extra)


def generic_model(c, *assumptions):
    """a model of the path (plus assumptions) in which the real-valued inputs avoid 'round' values where possible:
    witnesses replayed on the real code then also exercise truncation / rounding / tie-sensitive code.
    The avoidance is soft: inputs that must take a round value (a reward that has to be 0, say) keep it."""
    extra = []
    for name, (zv, kind) in c.inputs.items():
        if zv is not None and kind == 'real':
            extra.append(z3.And(*[zv != z3.RealVal(str(v)) for v in ROUND_VALUES]))
    m = None
    try:
        c.solver.push()
        for e in assumptions:
            c.solver.add(e)
        c.solver.push()
        for e in extra:
            c.solver.add(e)
        r = c._check()
        if r == z3.sat:
            m = c.solver.model()
        c.solver.pop()
        if m is None:
            if c._check() != z3.sat:
                return None
            m = c.solver.model()
            if len(extra) <= 40:
                for e in extra:         # greedy: keep each avoidance that is still satisfiable
                    c.solver.push()
                    c.solver.add(e)
                    if c._check() == z3.sat:
                        m = c.solver.model()
                        c.solver.pop()
                        c.solver.add(e)
                    else:
                        c.solver.pop()
    finally:
        c.solver.pop()
    return m


class Sx:
    """what a harness sees"""

    def __init__(self, ctx, tier='quick'):
        self.c = ctx
        self.mode = ctx.mode
        self.tier = tier
        self._cleanup = []

    @property
    def sym(self):
        return self.mode == 'sym'

    # ---------------- inputs
    def _declare(self, name, zvar, kind):
        if name in self.c.inputs:
            raise RuntimeError(f"duplicate input name {name}")
        self.c.inputs[name] = (zvar, kind)

    def real(self, name, lo=None, hi=None, lo_open=False, hi_open=False):
        c = self.c
        if self.mode == 'real':
            if name not in c.given:
                c.missing.append(name)
                v = lo if lo is not None else 0
                if lo_open:
                    v = (lo + hi) / 2 if hi is not None else lo + 1
            else:
                v = c.given[name]
            c.inputs[name] = (None, 'real')
            return float(v)
        zv = z3.Real(name)
        self._declare(name, zv, 'real')
        if lo is not None:
            c.add(zv > toz(lo) if lo_open else zv >= toz(lo))
        if hi is not None:
            c.add(zv < toz(hi) if hi_open else zv <= toz(hi))
        return SymReal(zv)

    def integer(self, name, lo=None, hi=None):
        c = self.c
        if self.mode == 'real':
            if name not in c.given:
                c.missing.append(name)
                v = lo if lo is not None else 0
            else:
                v = c.given[name]
            c.inputs[name] = (None, 'int')
            return int(v)
        zv = z3.Int(name)
        self._declare(name, zv, 'int')
        if lo is not None:
            c.add(zv >= lo)
        if hi is not None:
            c.add(zv <= hi)
        return SymInt(zv)

    def boolean(self, name):
        c = self.c
        if self.mode == 'real':
            if name not in c.given:
                c.missing.append(name)
            c.inputs[name] = (None, 'bool')
            return bool(c.given.get(name, False))
        zv = z3.Bool(name)
        self._declare(name, zv, 'bool')
        return SymBool(zv)

    def choice(self, name, n):
        """concretised selector in range(n): the engine forks over every feasible value"""
        if n == 1:
            return 0
        return int(self.integer(name, 0, n - 1))

    def const(self, x):
        """a menu constant: exact Fraction under symbolic execution, float on the real code"""
        if self.mode == 'real':
            return float(x)
        if isinstance(x, float):
            return Fraction(x)
        return x

    def fresh(self, name):
        """oracle variable (a z3 Real in both modes)"""
        k = self.c.counter('fresh:' + name)
        return SymReal(z3.Real(f"{name}!{k}"))

    # ---------------- assumptions, obligations
    def assume(self, cond):
        c = self.c
        c.assumes += 1
        if isinstance(cond, SymBool):
            c.add(cond.z)
            if c.model is None:
                r = c._check()
                if r == z3.unsat:
                    raise Infeasible()
                if r == z3.unknown:
                    raise Unknown('assume')
                c.model = c.solver.model()
        elif isinstance(cond, (SymReal, SymInt)):
            self.assume(cond != 0)
        elif not cond:
            raise Infeasible()

    def cut(self, reason="bound"):
        raise PathCut(reason)

    def _extract_model(self, m):
        out = {}
        for name, (zv, kind) in self.c.inputs.items():
            if zv is None:
                continue
            out[name] = _frac(m.eval(zv, model_completion=True))
        return out

    def prove(self, cond, label, robust=None):
        """obligation: cond holds for every value of the symbolic inputs on this path.
        `robust`: a stronger violation condition (violated by a margin) tried first so that the
        counterexample survives replay in floating point."""
        c = self.c
        c.obligations += 1
        if isinstance(cond, (SymReal, SymInt)):
            cond = cond != 0
        # an obligation discharged on a path prefix holds on every path that extends the prefix
        # (re-execution is deterministic), so it is not re-queried there
        occ = c.counter(('ob', c.pos, label))
        key = (tuple(c.prefix[:c.pos]), label, occ, c.assumes)
        if self.sym and c.cache is not None and key in c.cache:
            c.discharged += 1
            c.cached += 1
            return True
        if isinstance(cond, SymBool):
            neg = z3.Not(cond.z)
            keep = c.model
            t0 = time.time()
            r = c._check(neg)
            dt = time.time() - t0
            if dt > c.slow.get(label, 0):
                c.slow[label] = dt
            if r == z3.sat:
                m = c.solver.model()
                if self.sym:
                    for rb in (robust if isinstance(robust, (list, tuple)) else [robust]):      # widest margin first
                        if isinstance(rb, SymBool) and c._check(rb.z) == z3.sat:
                            m = c.solver.model()
                            neg = rb.z
                            break
                if self.sym:
                    # prefer a counterexample that is interior to the path (every branch decision holds with a margin), then a
                    # generic one: boundary models often do not survive replay in floating point
                    strong = _with_margin(cond.z, False)      # the obligation itself violated with a margin on its numeric atoms
                    marg = [_with_margin(e, ch) for e, ch in c.decisions]
                    gm = generic_model(c, strong, *marg) or generic_model(c, neg, *marg) or generic_model(c, strong) or generic_model(c, neg)
                    if gm is not None:
                        m = gm
                c.violations.append((label, self._extract_model(m) if self.sym else dict(c.given)))
                c.model = None
                # continue the path under the assumption that the obligation held
                c.solver.add(cond.z)
                r2 = c._check()
                if r2 != z3.sat:
                    # violated for every value on this path: nothing left to explore here
                    raise PathEnd()
                c.model = c.solver.model()
                return False
            if r == z3.unknown:
                c.inconclusive.append(label)
                c.model = keep
                return None
            c.model = keep
            c.get_model()  # non-vacuity: the path (with its assumptions) is satisfiable
            c.discharged += 1
            if self.sym and c.cache is not None:
                c.cache.add(key)
            if EXPORT['dir'] and self.sym:
                _export(c, neg, label)
            return True
        if not cond:
            m = c.get_model()
            c.violations.append((label, self._extract_model(m) if self.sym else dict(c.given)))
            return False
        c.get_model()
        c.discharged += 1
        return True

    def _tol(self, tol, *vals):
        if self.mode == 'real':
            scale = 1.0
            for v in vals:
                if _isnum(v) and math.isfinite(v):
                    scale += abs(float(v))
            return float(tol) + getattr(self, 'float_slack', FLOAT_SLACK) * scale
        return tol

    def close(self, a, b, tol=TOL):
        """|a-b| <= tol as a condition (inf-aware; a NaN is close to nothing)"""
        if _isnan(a) or _isnan(b):
            return False
        if core._is_inf(a) or core._is_inf(b):
            if is_sym(a) or is_sym(b):
                return False
            return a == b
        t = self._tol(tol, a, b)
        d = a - b
        return (d <= t) & (-d <= t) if is_sym(d) or is_sym(t) else (abs(d) <= t)

    MARGIN = Fraction(1, 1000)
    MARGINS = [Fraction(1, 1000), Fraction(1, 10**6), Fraction(1, 10**9)]      # violated-by-a-margin models, widest first

    def prove_eq(self, a, b, label, tol=TOL):
        rob = None
        if self.sym and not (core._is_inf(a) or core._is_inf(b) or _isnan(a) or _isnan(b)):
            d = a - b
            if is_sym(d):
                rob = [(d > tol + mg) | (-d > tol + mg) for mg in self.MARGINS]
        return self.prove(self.close(a, b, tol), label, rob)

    def prove_le(self, a, b, label, tol=0):
        """a <= b + tol"""
        if _isnan(a) or _isnan(b):
            return self.prove(False, label)
        if core._is_inf(a) or core._is_inf(b):
            if is_sym(a) or is_sym(b):
                ok = (core._is_inf(a) and a < 0) or (core._is_inf(b) and b > 0)
            else:
                ok = a <= b
            return self.prove(ok, label)
        t = self._tol(tol, a, b)
        rob = None
        if self.sym and is_sym(a - b):
            rob = [(a - b > t + mg) for mg in self.MARGINS]
        return self.prove(a - b <= t, label, rob)

    @contextlib.contextmanager
    def must_not_raise(self, label, allowed=()):
        """the block is part of the property: an exception escaping it is a violation candidate"""
        try:
            yield
        except allowed:
            raise
        except Exception as e:  # noqa: BLE001  (BaseException control flow passes through)
            c = self.c
            c.obligations += 1
            m = (generic_model(c) or c.get_model()) if self.sym else None
            lab = f"{label}:raises:{type(e).__name__}"
            c.notes.append(f"{lab}: {str(e)[:200]}")
            c.violations.append((lab, self._extract_model(m) if self.sym else dict(c.given)))
            raise ExpectedRaise(lab)

    def observe(self, name, value):
        """record an output for twin validation (SYM terms are evaluated under a path model)"""
        self.c.observed[name] = value

    def note(self, s):
        self.c.notes.append(s)

    def on_exit(self, fn):
        self._cleanup.append(fn)


# --------------------------------------------------------------------------
def _flatten(v, out, key=''):
    np = core._np
    if isinstance(v, dict):
        for k in v:
            _flatten(v[k], out, f"{key}.{k!r}")
    elif isinstance(v, (list, tuple)) or (np is not None and isinstance(v, np.ndarray)):
        if np is not None and isinstance(v, np.ndarray):
            v = v.tolist()
        for i, x in enumerate(v):
            _flatten(x, out, f"{key}[{i}]")
    else:
        out[key] = v


def eval_observed(ctx, model):
    out = {}
    flat = {}
    _flatten(ctx.observed, flat)
    for k, v in flat.items():
        if isinstance(v, (SymReal, SymInt, SymBool)):
            try:
                if 'Exp(' in str(v.z):
                    out[k] = None  # value depends on the uninterpreted Exp: not comparable
                    continue
                out[k] = _frac(model.eval(v.z, model_completion=True))
            except ValueError:
                out[k] = None
        elif isinstance(v, LogVal):
            out[k] = None
        elif _isnum(v):
            out[k] = v if isinstance(v, (int, Fraction, bool)) else float(v)
        else:
            out[k] = repr(v)
    return out


def run_once(harness, prefix, mode, model, timeout_ms, tier, cache=None, confirming=False):
    """one execution of the harness along one decision prefix"""
    ctx = core.Ctx(prefix, timeout_ms=timeout_ms, mode=mode, model=model)
    ctx.cache = cache
    ctx.confirming = confirming   # REAL-mode replay of a solver-predicted violation (harnesses may search harder)
    core.CUR = ctx
    sx = Sx(ctx, tier)
    status = 'ok'
    err = None
    try:
        try:
            harness(sx)
        finally:
            for fn in reversed(sx._cleanup):
                fn()
    except Infeasible:
        status = 'infeasible'
    except PathCut as e:
        status = 'cut'
        err = str(e)
    except Unknown as e:
        status = 'unknown'
        err = str(e)
    except (ExpectedRaise, PathEnd) as e:
        status = 'ok'
    except Unmodelled as e:
        status = 'unmodelled'
        err = ''.join(traceback.format_exception(e))[-3000:]
    except RecursionError as e:
        status = 'error'
        err = 'RecursionError'
    except Exception as e:  # harness / facade error
        status = 'error'
        err = ''.join(traceback.format_exception(e))[-3000:]
    return ctx, status, err


def explore(harness, *, tier='quick', timeout_ms=20000, max_paths=20000, budget_s=600,
            twin=2, confirm=True):
    """explore every feasible path of `harness`; returns a stats dict (picklable)"""
    t0 = time.time()
    work = [[]]
    st = dict(paths=0, infeasible=0, cut=0, unknown=0, errors=[], unmodelled=[], queries=0,
              solver_s=0.0, obligations=0, discharged=0, inconclusive=[], violations=[],
              unconfirmed=[], assumes=0, forks=0, twin_ok=0, twin_mismatch=[], samples=[],
              exhausted=False, notes=[], real_checked=0, nontrivial_paths=0)
    seen_labels = set()
    cache = set()
    slow = {}
    core.RETRY_BUDGET[0] = 2
    confirmed_labels = set()
    twins_done = 0
    while work:
        if st['paths'] + st['cut'] >= max_paths or time.time() - t0 > budget_s:
            break
        prefix = work.pop()
        ctx, status, err = run_once(harness, prefix, 'sym', None, timeout_ms, tier, cache)
        work.extend(ctx.pending)
        st['queries'] += ctx.queries
        st['solver_s'] += ctx.solver_s
        st['forks'] += ctx.forks
        if status == 'infeasible':
            st['infeasible'] += 1
        elif status == 'unknown':
            st['unknown'] += 1
            st['inconclusive'].append(f"path:{err}")
        elif status == 'error':
            st['errors'].append(err)
        elif status == 'unmodelled':
            st['unmodelled'].append(err)
        else:
            if status == 'cut':
                st['cut'] += 1
            else:
                st['paths'] += 1
        if status in ('ok', 'cut', 'error', 'unmodelled'):
            st['obligations'] += ctx.obligations
            st['nontrivial_paths'] += 1 if ctx.discharged > ctx.cached else 0
            st['cached'] = st.get('cached', 0) + ctx.cached
            for kk, vv in ctx.slow.items():
                if vv > slow.get(kk, 0):
                    slow[kk] = vv
            st['discharged'] += ctx.discharged
            st['assumes'] += ctx.assumes
            st['inconclusive'].extend(ctx.inconclusive)
            if len(st['inconclusive']) > 6:
                st['notes'].append('stopped: more than 6 solver timeouts in this case')
                break
            for n in ctx.notes:
                if n not in st['notes'] and len(st['notes']) < 20:
                    st['notes'].append(n)
            path_has_confirmed = False
            for label, model in ctx.violations:
                if label in seen_labels:
                    path_has_confirmed = path_has_confirmed or label in confirmed_labels
                    continue
                seen_labels.add(label)
                v = dict(label=label, model={k: str(x) for k, x in model.items()})
                if confirm:
                    ok, info = confirm_violation(harness, label, model, timeout_ms, tier)
                    v['replay'] = info
                    if not ok and info.get('labels'):
                        # the real code violates the property on this input, under another obligation than the
                        # symbolic run predicted (e.g. numpy yields nan where exact arithmetic raises): report what
                        # the real code does
                        v['predicted_label'] = label
                        v['label'] = info['labels'][0]
                        ok = True
                    if ok:
                        st['violations'].append(v)
                        confirmed_labels.add(label)
                        path_has_confirmed = True
                    elif path_has_confirmed:
                        # found only after assuming an already-violated obligation on this path:
                        # a marginal artefact of continuing, not reported
                        seen_labels.discard(label)
                    else:
                        st['unconfirmed'].append(v)
                else:
                    st['violations'].append(v)
            if status == 'ok' and twins_done < twin and not ctx.violations:
                twins_done += 1
                try:
                    core.CUR = ctx
                    m = interior_model(ctx)
                    interior = m is not None
                    if m is None:
                        m = generic_model(ctx) or ctx.get_model()
                    sxm = Sx(ctx)._extract_model(m)
                    exp = eval_observed(ctx, m)
                    rctx, rstatus, rerr = run_once(harness, [], 'real', sxm, timeout_ms, tier)
                    st['real_checked'] += rctx.discharged
                    got = {}
                    flat = {}
                    _flatten(rctx.observed, flat)
                    mism = []
                    if rctx.violations and _improvised(rctx.missing):
                        mism.append(f"real run left the path (it asked for generator draws the witness does not define: {_improvised(rctx.missing)[:3]}): "
                                    f"violations={[l for l, _ in rctx.violations]} not reported, the improvised draws are not a run of the real generator")
                    elif rctx.violations and not interior:
                        mism.append(f"real run on a boundary witness: violations={[l for l, _ in rctx.violations]} (not reported: "
                                    f"the path is only satisfiable on a decision boundary, where float and exact comparisons may differ)")
                    elif rctx.violations:
                        # the real code violates the property on a solver-chosen witness that is interior to the path
                        # (every branch decision holds with a margin): a replayed violation
                        # ... unless it disappears when the inputs are nudged: merged tolerance tests (isclose inside If terms) are not
                        # branch decisions, so a witness can still sit exactly on such a band edge, where IEEE and exact arithmetic differ
                        nudged = {k: ((v * (1 - Fraction(1, 10**7))) if (isinstance(v, Fraction) and not _DRAW.search(k)) else v)       # (towards 0: stays inside sign / range preconditions)
                                  for k, v in sxm.items()}
                        try:
                            rctx2, _, _ = run_once(harness, [], 'real', nudged, timeout_ms, tier)
                            persists = {l for l, _ in rctx2.violations}
                        except Exception:  # noqa: BLE001
                            persists = set()
                        for rl, _ in rctx.violations[:1]:
                            if rl not in persists:
                                mism.append(f"real run on a witness: violation {rl} does not persist under a 1e-7 nudge of the inputs (tolerance-band edge): not reported")
                                continue
                            if rl not in seen_labels:
                                seen_labels.add(rl)
                                confirmed_labels.add(rl)
                                st['violations'].append(dict(label=rl, model={k: str(x) for k, x in sxm.items()},
                                                             replay=dict(status=rstatus, labels=[l for l, _ in rctx.violations], found_by='witness replay')))
                    elif rstatus != 'ok':
                        mism.append(f"real run status={rstatus} err={rerr}")
                    else:
                        for k, ev in exp.items():
                            gv = flat.get(k, '<missing>')
                            if not _isnum(gv) and not isinstance(gv, str):
                                gv = repr(gv)
                            elif isinstance(gv, str) and isinstance(ev, str) and gv != '<missing>':
                                gv = repr(gv)
                            if ev is None:
                                continue
                            if isinstance(ev, str) or isinstance(gv, str):
                                if isinstance(gv, str) and isinstance(ev, str) and gv != ev:
                                    mism.append(f"{k}: sym={ev} real={gv}")
                                continue
                            try:
                                gvf, evf = float(gv), float(ev)
                            except (TypeError, ValueError):
                                continue
                            if math.isinf(gvf) or math.isinf(evf):
                                if gvf != evf:
                                    mism.append(f"{k}: sym={evf} real={gvf}")
                            elif abs(gvf - evf) > 1e-6 * (1 + abs(evf)):
                                mism.append(f"{k}: sym={evf} real={gvf}")
                    if mism:
                        st['twin_mismatch'].append(dict(model={k: str(x) for k, x in sxm.items()}, diffs=mism[:10]))
                    else:
                        st['twin_ok'] += 1
                    if len(st['samples']) < 3:
                        st['samples'].append(dict(path_decisions=len(ctx.prefix), obligations=ctx.obligations,
                                                  witness_model={k: str(x) for k, x in list(sxm.items())[:12]},
                                                  observed={k: str(x) for k, x in list(exp.items())[:8]}))
                except (Infeasible, Unknown) as e:
                    st['notes'].append(f"twin skipped: {type(e).__name__}")
    st['exhausted'] = not work
    st['slowest'] = sorted(((round(v, 2), k) for k, v in slow.items()), reverse=True)[:5]
    st['wall_s'] = time.time() - t0
    core.CUR = None
    return st


def confirm_violation(harness, label, model, timeout_ms, tier):
    """replay the solver's model on the real code (floats, real numpy, scripted generator)"""
    rctx, rstatus, rerr = run_once(harness, [], 'real', model, timeout_ms, tier, confirming=True)
    labels = [l for l, _ in rctx.violations]
    info = dict(status=rstatus, labels=labels, missing=rctx.missing[:5])
    if rerr:
        info['err'] = rerr[-600:]
    if _improvised(rctx.missing) and label not in labels:
        # the real run left the predicted path and improvised generator draws: whatever else it violated is not evidence
        info['labels'] = []
    return (label in labels), info
