"""numpy facade: object-dtype ndarray subclass holding symbolic numbers.

Real numpy does indexing / broadcasting / einsum / reductions on the object
arrays (calling the Python operators of the elements); the operations that
would call ``bool()`` per element (comparisons, max, all/any, isclose, ...)
or that only exist in C for floats (linalg, log, exp) are intercepted.
"""
import math
import types
import functools
import numpy as _np
import z3
from fractions import Fraction

from . import core
from .core import (SymReal, SymInt, SymBool, LogVal, toz, tob, is_sym, zif, smax2, smin2,
                   sall, sany, snot, Unmodelled)

_BOOLS = (bool, _np.bool_, SymBool)


def _o(a):
    """as plain object ndarray"""
    if isinstance(a, _np.ndarray):
        if a.dtype == object:
            return a.view(_np.ndarray)
        return a.astype(object)
    return _np.asarray(a, dtype=object)


def has_sym(a):
    if isinstance(a, _np.ndarray):
        if a.dtype != object:
            return False
        return any(is_sym(x) for x in a.flat)
    if isinstance(a, (list, tuple)):
        return any(has_sym(x) for x in a)
    return is_sym(a)


def _wrap(r):
    if isinstance(r, _np.ndarray) and not isinstance(r, SymArray) and r.ndim > 0:
        return r.view(SymArray)
    if isinstance(r, tuple):
        return tuple(_wrap(x) for x in r)
    return r


def to_float(a):
    """concrete float ndarray from an array without symbolic elements"""
    a = _np.asarray(a)
    if a.dtype != object:
        return a
    out = _np.empty(a.shape, dtype=float)
    for idx in _np.ndindex(a.shape):
        x = a[idx]
        if is_sym(x):
            raise Unmodelled("symbolic value where a concrete array is required")
        out[idx] = float(x)
    return out


def is_mask(a):
    return isinstance(a, _np.ndarray) and a.dtype == object and a.size > 0 and \
        all(isinstance(x, _BOOLS) for x in a.flat)


def concretize_array(a):
    """object array of (symbolic) bools/ints -> real bool/int ndarray; symbolic elements fork"""
    a = _np.asarray(a)
    if a.dtype != object:
        return a
    if is_mask(a):
        return _np.array([bool(x) for x in a.flat], dtype=bool).reshape(a.shape)
    if a.size == 0:
        return a.astype(int)
    return _np.array([int(x) for x in a.flat], dtype=int).reshape(a.shape)


def elementwise(f, *arrs):
    bs = _np.broadcast_arrays(*[_o(a) for a in arrs])
    out = _np.empty(bs[0].shape, dtype=object)
    for idx in _np.ndindex(out.shape):
        out[idx] = f(*[b[idx] for b in bs])
    if out.ndim == 0:
        return out[()]
    return _tidy(out)


def _tidy(out):
    """an object array holding only plain bools becomes a real bool array (usable as a mask on any ndarray)"""
    if out.size and all(isinstance(x, (bool, _np.bool_)) for x in out.flat):
        return out.astype(bool).view(SymArray)
    return out.view(SymArray)


def reduce_axis(f, a, axis, keepdims=False):
    a = _o(a)
    if axis is None:
        r = f(list(a.flat))
        if isinstance(r, float):
            r = _np.float64(r)      # numpy scalars carry .item() etc.
        if keepdims:
            out = _np.empty((1,) * a.ndim, dtype=object)
            out[(0,) * a.ndim] = r
            return out.view(SymArray)
        return r
    if isinstance(axis, (int, _np.integer)):
        axis = (axis,)
    axis = tuple(ax % a.ndim for ax in axis)
    keep = [i for i in range(a.ndim) if i not in axis]
    at = a.transpose(keep + list(axis)).reshape([a.shape[i] for i in keep] + [-1])
    out = _np.empty(at.shape[:-1], dtype=object)
    for idx in _np.ndindex(out.shape):
        out[idx] = f(list(at[idx]))
    if keepdims:
        out = out.reshape([1 if i in axis else a.shape[i] for i in range(a.ndim)])
    if out.ndim == 0:
        return out[()]
    return _tidy(out)


def _eq(a, b): return a == b
def _ne(a, b): return a != b
def _lt(a, b): return a < b
def _le(a, b): return a <= b
def _gt(a, b): return a > b
def _ge(a, b): return a >= b


def _and(a, b):
    if isinstance(a, SymBool):
        return a & b
    if isinstance(b, SymBool):
        return b & a
    if isinstance(a, _BOOLS) and isinstance(b, _BOOLS):
        return bool(a) and bool(b)
    return a & b


def _or(a, b):
    if isinstance(a, SymBool):
        return a | b
    if isinstance(b, SymBool):
        return b | a
    if isinstance(a, _BOOLS) and isinstance(b, _BOOLS):
        return bool(a) or bool(b)
    return a | b


def _xor(a, b):
    if isinstance(a, SymBool) or isinstance(b, SymBool):
        return SymBool(z3.Xor(tob(a), tob(b)))
    if isinstance(a, _BOOLS) and isinstance(b, _BOOLS):
        return bool(a) != bool(b)
    return a ^ b


def _inv(a):
    if isinstance(a, SymBool):
        return ~a
    if isinstance(a, _BOOLS):
        return not a
    return ~a


def _lnot(a):
    if isinstance(a, SymBool):
        return ~a
    if isinstance(a, (SymReal, SymInt)):
        return a == 0
    return not a


def _isnan(a):
    return (not is_sym(a)) and isinstance(a, float) and math.isnan(a)


def _isinf(a):
    return (not is_sym(a)) and isinstance(a, float) and math.isinf(a)


def _isfinite(a):
    return is_sym(a) or not (isinstance(a, float) and (math.isinf(a) or math.isnan(a)))


def _exp(a):
    return core.sym_exp(a)


def _log(a):
    return core.sym_log(a)


def _sign(a):
    if is_sym(a):
        return core._mk(z3.simplify(z3.If(toz(a) > 0, z3.RealVal(1), z3.If(toz(a) < 0, z3.RealVal(-1), z3.RealVal(0)))))
    return (a > 0) - (a < 0)


def _div(a, b):
    try:
        return a / b
    except ZeroDivisionError:
        # numpy semantics (errstate ignore): division by zero yields nan / inf instead of raising
        return float('nan')


_UFUNCS = {
    _np.true_divide: _div,
    _np.equal: _eq, _np.not_equal: _ne, _np.less: _lt, _np.less_equal: _le,
    _np.greater: _gt, _np.greater_equal: _ge,
    _np.maximum: smax2, _np.minimum: smin2, _np.fmax: smax2, _np.fmin: smin2,
    _np.bitwise_and: _and, _np.bitwise_or: _or, _np.bitwise_xor: _xor, _np.invert: _inv,
    _np.logical_and: _and, _np.logical_or: _or, _np.logical_not: _lnot, _np.logical_xor: _xor,
    _np.isnan: _isnan, _np.isinf: _isinf, _np.isfinite: _isfinite,
    _np.exp: _exp, _np.log: _log, _np.absolute: abs, _np.sign: _sign,
}
_REDUCERS = {
    _np.maximum: lambda xs: functools.reduce(smax2, xs),
    _np.minimum: lambda xs: functools.reduce(smin2, xs),
    _np.logical_and: sall, _np.logical_or: sany,
    _np.bitwise_and: sall, _np.bitwise_or: sany,
}

HANDLED = {}


def _any_object(args, kwargs):
    def chk(x):
        if isinstance(x, _np.ndarray):
            return x.dtype == object
        if isinstance(x, (list, tuple)):
            return any(chk(y) for y in x)
        return is_sym(x) or isinstance(x, Fraction)
    return any(chk(a) for a in args) or any(chk(v) for v in kwargs.values())


def implements(*fs):
    def deco(g):
        for f in fs:
            HANDLED[f] = g
        return g
    return deco


def _conc_index(idx):
    def one(i):
        if isinstance(i, _np.ndarray) and i.dtype == object:
            return concretize_array(i)
        if isinstance(i, SymBool):
            return bool(i)
        if isinstance(i, SymInt):
            return int(i)
        if isinstance(i, list) and any(is_sym(x) for x in i):
            return [one(x) for x in i]
        return i
    if isinstance(idx, tuple):
        return tuple(one(i) for i in idx)
    return one(idx)


class SymArray(_np.ndarray):
    def __new__(cls, a):
        return _np.asarray(a, dtype=object).view(cls)

    def setflags(self, **kw):
        pass

    def __array_ufunc__(self, ufunc, method, *inputs, out=None, **kwargs):
        if out is not None:
            # in-place: compute, then assign (with where=: only at the selected positions, the others keep what `out` holds)
            where = kwargs.pop('where', True)
            o = out[0]
            if where is not True and method == '__call__':
                if o.dtype != object:
                    o = out_obj = _np.asarray(o, dtype=object).view(SymArray)
                full = self.__array_ufunc__(ufunc, method, *inputs, **kwargs)
                res = elementwise(lambda w, new, old: (new if w else old) if not is_sym(w) else core.zif(w, new, old), where, full, _o(o))
                if out[0].dtype == object:
                    _np.ndarray.__setitem__(out[0].view(_np.ndarray), Ellipsis, _o(res))
                    return out[0]
                return _wrap(res)       # `out` cannot hold symbolic values (a float array): hand back the merged result
            res = self.__array_ufunc__(ufunc, method, *inputs, **kwargs)
            _np.ndarray.__setitem__(o.view(_np.ndarray) if isinstance(o, SymArray) else o, Ellipsis, _o(res) if isinstance(res, _np.ndarray) else res)
            return o
        if not any((isinstance(x, _np.ndarray) and x.dtype == object) or is_sym(x) or isinstance(x, Fraction) for x in inputs):
            plain = [x.view(_np.ndarray) if isinstance(x, SymArray) else x for x in inputs]
            with _np.errstate(all='ignore'):
                return _wrap(getattr(ufunc, method)(*plain, **kwargs))
        ins = [_o(x) if isinstance(x, _np.ndarray) else x for x in inputs]
        if method == '__call__' and ufunc in _UFUNCS:
            kwargs.pop('dtype', None)
            where = kwargs.pop('where', True)
            if where is not True:
                raise Unmodelled("ufunc where=")
            return elementwise(_UFUNCS[ufunc], *ins)
        if method == 'reduce' and ufunc in _REDUCERS:
            axis = kwargs.get('axis', 0)
            return reduce_axis(_REDUCERS[ufunc], ins[0], axis, kwargs.get('keepdims', False))
        if method == 'reduce' and ufunc is _np.add:
            kwargs.pop('dtype', None)
            initial = kwargs.pop('initial', 0)
            r = reduce_axis(lambda xs: core.ssum(xs, initial), ins[0], kwargs.get('axis', 0), kwargs.get('keepdims', False))
            return r
        kwargs.pop('dtype', None) if kwargs.get('dtype', None) in (float, _np.float64) else None
        r = getattr(ufunc, method)(*ins, **kwargs)
        return _wrap(r)

    def __array_function__(self, func, types_, args, kwargs):
        def strip(x):
            if isinstance(x, SymArray):
                return x.view(_np.ndarray)
            if isinstance(x, (list, tuple)):
                return type(x)(strip(y) for y in x)
            return x
        if func in HANDLED and _any_object(args, kwargs):
            return HANDLED[func](*args, **kwargs)
        with _np.errstate(all='ignore'):
            r = func(*strip(args), **{k: strip(v) for k, v in kwargs.items()})
        return _wrap(r)

    def _unused(self, func, types_, args, kwargs):

        def strip(x):
            if isinstance(x, SymArray):
                return x.view(_np.ndarray)
            if isinstance(x, (list, tuple)):
                return type(x)(strip(y) for y in x)
            return x
        r = func(*strip(args), **{k: strip(v) for k, v in kwargs.items()})
        return _wrap(r)

    def __getitem__(self, idx):
        r = _np.ndarray.__getitem__(self, _conc_index(idx))
        return r

    def __setitem__(self, idx, v):
        return _np.ndarray.__setitem__(self, _conc_index(idx), v)

    __hash__ = None

    def __bool__(self):
        if self.size == 1:
            return bool(self.flat[0])
        raise ValueError("The truth value of an array with more than one element is ambiguous.")

    def all(self, axis=None, out=None, keepdims=False, **kw):
        if self.dtype != object:
            return _wrap(getattr(self.view(_np.ndarray), 'all')(axis=axis, keepdims=keepdims))
        return reduce_axis(sall, self, axis, keepdims)

    def any(self, axis=None, out=None, keepdims=False, **kw):
        if self.dtype != object:
            return _wrap(getattr(self.view(_np.ndarray), 'any')(axis=axis, keepdims=keepdims))
        return reduce_axis(sany, self, axis, keepdims)

    def max(self, axis=None, out=None, keepdims=False, **kw):
        if self.dtype != object:
            return _wrap(getattr(self.view(_np.ndarray), 'max')(axis=axis, keepdims=keepdims))
        return reduce_axis(lambda xs: functools.reduce(smax2, xs), self, axis, keepdims)

    def min(self, axis=None, out=None, keepdims=False, **kw):
        if self.dtype != object:
            return _wrap(getattr(self.view(_np.ndarray), 'min')(axis=axis, keepdims=keepdims))
        return reduce_axis(lambda xs: functools.reduce(smin2, xs), self, axis, keepdims)

    def sum(self, axis=None, dtype=None, out=None, keepdims=False, **kw):
        if self.dtype != object:
            return _wrap(self.view(_np.ndarray).sum(axis=axis, keepdims=keepdims))
        return reduce_axis(lambda xs: core.ssum(xs), self, axis, keepdims)

    def mean(self, axis=None, **kw):
        if self.dtype != object:
            return _wrap(self.view(_np.ndarray).mean(axis=axis))
        a = _o(self)
        n = a.size if axis is None else _np.prod([a.shape[ax] for ax in ((axis,) if isinstance(axis, int) else axis)])
        return self.sum(axis=axis) / int(n)

    def argmax(self, axis=None, **kw):
        return argmax(self, axis=axis)

    def astype(self, dtype, **kw):
        if self.dtype != object:
            return _wrap(self.view(_np.ndarray).astype(dtype, **kw))
        if dtype is bool or dtype is _np.bool_:
            a = _o(self)
            # the caller asks for a genuine boolean array: symbolic truth values are concretised (fork)
            return _np.array([bool(x if isinstance(x, _BOOLS) else (x != 0)) for x in a.flat], dtype=bool).reshape(a.shape).view(SymArray)
        if dtype in (float, _np.float64, _np.float32, 'float64'):
            if has_sym(self):
                return self
            return to_float(self).view(SymArray)
        if dtype in (int, _np.int64):
            if has_sym(self):
                return self
            return _np.array([int(x) for x in _o(self).flat], dtype=int).reshape(self.shape).view(SymArray)
        return _np.ndarray.astype(self, dtype, **kw)

    def round(self, decimals=0, **kw):
        return _around(self, decimals)

    def tolist(self):
        return self.view(_np.ndarray).tolist()

    def item(self, *a):
        return self.view(_np.ndarray).item(*a)

    def copy(self, *a, **k):
        return _np.ndarray.copy(self.view(_np.ndarray)).view(SymArray)

    def view(self, *a, **k):
        return _np.ndarray.view(self, *a, **k)

    def __matmul__(self, o):
        return _matmul(self, o)

    def __rmatmul__(self, o):
        return _matmul(o, self)

    def dot(self, o):
        return _matmul(self, o)


def _matmul(a, b):
    r = _np.matmul(_o(a), _o(b))
    return _wrap(r)


def argmax(a, axis=None):
    """index of the first maximum; symbolic comparisons fork (the result indexes arrays)"""
    a = _o(a)
    if axis is None:
        xs = list(a.flat)
        best = 0
        for i in range(1, len(xs)):
            if xs[i] > xs[best]:
                best = i
        return best
    a2 = _np.moveaxis(a, axis, -1)
    out = _np.empty(a2.shape[:-1], dtype=int)
    for idx in _np.ndindex(out.shape):
        xs = list(a2[idx])
        best = 0
        for i in range(1, len(xs)):
            if xs[i] > xs[best]:
                best = i
        out[idx] = best
    return out.view(SymArray)     # so that a symbolic mask used to index it is concretised


@implements(_np.max, _np.amax)
def _max(a, axis=None, out=None, keepdims=False, **kw):
    return SymArray(a).max(axis=axis, keepdims=keepdims)


@implements(_np.min, _np.amin)
def _min(a, axis=None, out=None, keepdims=False, **kw):
    return SymArray(a).min(axis=axis, keepdims=keepdims)


@implements(_np.sum)
def _sum(a, axis=None, dtype=None, out=None, keepdims=False, **kw):
    return SymArray(a).sum(axis=axis, keepdims=keepdims)


@implements(_np.all)
def _all(a, axis=None, out=None, keepdims=False, **kw):
    return SymArray(a).all(axis=axis, keepdims=keepdims)


@implements(_np.any)
def _any(a, axis=None, out=None, keepdims=False, **kw):
    return SymArray(a).any(axis=axis, keepdims=keepdims)


@implements(_np.mean)
def _mean(a, axis=None, **kw):
    return SymArray(a).mean(axis=axis)


@implements(_np.argmax)
def _argmax(a, axis=None, **kw):
    return argmax(a, axis)


FORK_ISCLOSE = [False]  # harness switch: decide isclose results by forking (keeps later products linear)


@implements(_np.isclose)
def _isclose(a, b, rtol=1e-5, atol=1e-8, equal_nan=False):
    def f(x, y):
        r = f0(x, y)
        if FORK_ISCLOSE[0] and isinstance(r, SymBool):
            return bool(r)
        return r

    def f0(x, y):
        if core._is_inf(x) or core._is_inf(y):
            if is_sym(x) or is_sym(y):
                return False
            return x == y
        if not is_sym(x) and not is_sym(y):
            return abs(x - y) <= atol + rtol * abs(y)
        return abs(x - y) <= atol + rtol * abs(y)
    return elementwise(f, a, b)


@implements(_np.allclose)
def _allclose(a, b, rtol=1e-5, atol=1e-8, equal_nan=False):
    r = _isclose(a, b, rtol, atol)
    return sall(list(_o(r).flat)) if isinstance(r, _np.ndarray) else r


@implements(_np.around, _np.round)
def _around(a, decimals=0, out=None):
    if decimals < 6 and has_sym(a):
        raise Unmodelled("np.around of symbolic values to fewer than 6 decimals")

    def f(x):
        # rounding to >= 6 decimals is modelled as the identity on EVERY value of an array that is handled by the facade
        # (rounding some entries and not others creates spurious near-ties); perturbation <= 0.5*10^-decimals, outside claims
        if is_sym(x) or isinstance(x, Fraction) or decimals >= 6:
            return x
        return round(x, decimals)
    return elementwise(f, a)


@implements(_np.where)
def _where(c, *xy):
    if not xy:
        return _np.where(concretize_array(c))
    x, y = xy
    return elementwise(lambda cc, xx, yy: zif(cc, xx, yy) if isinstance(cc, SymBool) else (xx if cc else yy), c, x, y)


@implements(_np.isnan)
def _isnan_f(a, **kw):
    return elementwise(_isnan, a)


@implements(_np.clip)
def _clip(a, a_min=None, a_max=None, **kw):
    r = a
    if a_min is not None:
        r = elementwise(smax2, r, a_min)
    if a_max is not None:
        r = elementwise(smin2, r, a_max)
    return r


@implements(_np.abs, _np.absolute)
def _absf(a, **kw):
    return elementwise(abs, a)


@implements(_np.exp)
def _expf(a, **kw):
    return elementwise(_exp, a)


@implements(_np.log)
def _logf(a, **kw):
    return elementwise(_log, a)


def _solve_vec(A, b, tag):
    n = A.shape[0]
    c = core.CUR
    k = c.counter('solve')
    x = [SymReal(z3.Real(f"{tag}{k}_{i}")) for i in range(n)]
    for i in range(n):
        lhs = core.ssum(A[i, j] * x[j] for j in range(n))
        c.add(toz(lhs) == toz(b[i]))
    return x


def _to_frac(x):
    if isinstance(x, Fraction):
        return x
    if isinstance(x, (bool, _np.bool_)):
        return Fraction(int(x))
    if isinstance(x, (int, _np.integer)):
        return Fraction(int(x))
    return core.nice_fraction(float(x))


def _exact_inv(A):
    """Gauss-Jordan over the rationals (concrete matrices stay exact under the facade)"""
    n = A.shape[0]
    M = [[_to_frac(A[i, j]) for j in range(n)] + [Fraction(int(i == j)) for j in range(n)] for i in range(n)]
    for c in range(n):
        piv = next((r for r in range(c, n) if M[r][c] != 0), None)
        if piv is None:
            raise _np.linalg.LinAlgError("Singular matrix")
        M[c], M[piv] = M[piv], M[c]
        pv = M[c][c]
        M[c] = [x / pv for x in M[c]]
        for r in range(n):
            if r != c and M[r][c] != 0:
                f = M[r][c]
                M[r] = [x - f * y for x, y in zip(M[r], M[c])]
    out = _np.empty((n, n), dtype=object)
    for i in range(n):
        for j in range(n):
            v = M[i][n + j]
            out[i, j] = int(v) if v.denominator == 1 else v
    return out.view(SymArray)


@implements(_np.linalg.solve)
def _solve(A, b):
    A = _o(A)
    b = _o(b)
    if not has_sym(A) and not has_sym(b):
        return _np.linalg.solve(to_float(A), to_float(b))
    if not has_sym(A) and A.ndim == 2 and A.shape[0] == A.shape[1] and b.ndim in (1, 2) and b.shape[0] == A.shape[0]:
        return _wrap(_np.matmul(_o(_exact_inv(A)), b))
    # numpy >= 2 semantics: b is a vector only if b.ndim == 1, else a stack of matrices
    if A.ndim < 2 or A.shape[-1] != A.shape[-2]:
        raise _np.linalg.LinAlgError("Last 2 dimensions of the array must be square")
    if b.ndim == 1:
        if A.ndim != 2 or A.shape[0] != b.shape[0]:
            raise ValueError("solve: Input operand 1 has a mismatch in its core dimension 0 (numpy>=2 semantics)")
        return SymArray(_solve_vec(A, b, 'solve'))
    if A.ndim == 2 and b.ndim == 2:
        if A.shape[0] != b.shape[0]:
            raise ValueError("solve: Input operand 1 has a mismatch in its core dimension 0")
        cols = [_solve_vec(A, b[:, j], 'solve') for j in range(b.shape[1])]
        return SymArray(_np.array(cols, dtype=object).T)
    # batched: A (..., n, n), b (..., n, k)
    if b.ndim != A.ndim or b.shape[-2] != A.shape[-1]:
        raise ValueError("solve: Input operand 1 has a mismatch in its core dimension 0, with gufunc signature "
                         "(m,m),(m,n)->(m,n) (numpy>=2 semantics)")
    lead = _np.broadcast_shapes(A.shape[:-2], b.shape[:-2])
    Ab = _np.broadcast_to(A, lead + A.shape[-2:])
    bb = _np.broadcast_to(b, lead + b.shape[-2:])
    out = _np.empty(lead + b.shape[-2:], dtype=object)
    for idx in _np.ndindex(lead):
        for j in range(b.shape[-1]):
            col = _solve_vec(Ab[idx], bb[idx][:, j], 'solve')
            for i in range(len(col)):
                out[idx + (i, j)] = col[i]
    return out.view(SymArray)


@implements(_np.linalg.inv)
def _linv(A):
    A = _o(A)
    if not has_sym(A):
        if A.ndim == 2:
            return _exact_inv(A)
        return _np.linalg.inv(to_float(A))
    n = A.shape[0]
    c = core.CUR
    k = c.counter('inv')
    X = _np.empty((n, n), dtype=object)
    for i in range(n):
        for j in range(n):
            X[i, j] = SymReal(z3.Real(f"inv{k}_{i}_{j}"))
    for i in range(n):
        for j in range(n):
            c.add(toz(core.ssum(A[i, kk] * X[kk, j] for kk in range(n))) == (1 if i == j else 0))
    return X.view(SymArray)


@implements(_np.linalg.det)
def _det(A):
    A = _o(A)
    if not has_sym(A):
        return _np.linalg.det(to_float(A))
    n = A.shape[0]

    def det(M):
        if len(M) == 1:
            return M[0][0]
        r = 0
        for j in range(len(M)):
            minor = [row[:j] + row[j + 1:] for row in M[1:]]
            r = r + ((-1) ** j) * M[0][j] * det(minor)
        return r
    return det([list(A[i]) for i in range(n)])


@implements(_np.linalg.matrix_rank)
def _matrix_rank(A, *a, **kw):
    if has_sym(A):
        raise Unmodelled("np.linalg.matrix_rank on symbolic values")
    return _np.linalg.matrix_rank(to_float(A), *a, **kw)


@implements(_np.unique)
def _unique(a, axis=None, **kw):
    if has_sym(a):
        raise Unmodelled("np.unique on symbolic values")
    return _np.unique(to_float(a), axis=axis, **kw)


@implements(_np.einsum)
def _einsum(*args, **kw):
    kw.pop('optimize', None)
    out = kw.pop('out', None)
    a2 = [(_o(x) if isinstance(x, _np.ndarray) else x) for x in args]
    if any(isinstance(x, _np.ndarray) and x.dtype == object for x in a2):
        a2 = [(x.astype(object) if isinstance(x, _np.ndarray) and x.dtype != object else x) for x in a2]
    r = _np.einsum(*a2, **kw)
    if out is not None:
        _np.ndarray.__setitem__(out.view(_np.ndarray), Ellipsis, r)
        return out
    return _wrap(r)


@implements(_np.isin)
def _isin(a, b, **kw):
    return _np.isin(to_float(a), to_float(b), **kw)


@implements(_np.array_equal)
def _array_equal(a, b, **kw):
    a, b = _o(a), _o(b)
    if a.shape != b.shape:
        return False
    return sall([x == y for x, y in zip(a.flat, b.flat)])


# --------------------------------------------------------------------------
class NPFacade(types.ModuleType):
    """stands in for the `numpy` module inside the modules under test"""

    def __init__(self):
        super().__init__('symx_numpy')
        self.linalg = _LinalgFacade()

    def __getattr__(self, k):
        return getattr(_np, k)

    @staticmethod
    def _filled(shape, v):
        if isinstance(shape, (int, _np.integer)):
            shape = (shape,)
        a = _np.empty(tuple(int(s) for s in shape), dtype=object)
        a[...] = v
        return a.view(SymArray)

    def zeros(self, shape, dtype=None, **kw):
        if dtype in (bool, int, _np.bool_, _np.int64):
            return _np.zeros(shape, dtype=dtype).view(SymArray)
        return self._filled(shape, 0)

    def ones(self, shape, dtype=None, **kw):
        if dtype in (bool, int, _np.bool_, _np.int64):
            return _np.ones(shape, dtype=dtype).view(SymArray)
        return self._filled(shape, 1)

    def empty(self, shape, dtype=None, **kw):
        if dtype in (bool, int, _np.bool_, _np.int64):
            return _np.empty(shape, dtype=dtype)
        return self._filled(shape, 0)

    def full(self, shape, fill_value, dtype=None, **kw):
        return self._filled(shape, fill_value)

    def zeros_like(self, a, dtype=None, **kw):
        if dtype in (bool, int):
            return _np.zeros(_np.shape(a), dtype=dtype).view(SymArray)
        if dtype is None and isinstance(a, _np.ndarray) and a.dtype.kind in 'iub':
            # keep integer / boolean dtypes (storing a symbolic real there then fails loudly instead of being silently exact)
            return _np.zeros(a.shape, dtype=a.dtype).view(SymArray)
        return self._filled(_np.shape(a), 0)

    def ones_like(self, a, dtype=None, **kw):
        return self._filled(_np.shape(a), 1)

    def eye(self, n, *a, **kw):
        r = self._filled((n, n), 0)
        for i in range(n):
            _np.ndarray.__setitem__(r, (i, i), 1)
        return r

    def identity(self, n, **kw):
        return self.eye(n)

    def array(self, x, dtype=None, **kw):
        if dtype in (bool, _np.bool_):
            if has_sym(x):
                return elementwise(lambda v: v if isinstance(v, _BOOLS) else (v != 0), _np.array(x, dtype=object))
            return _wrap(_np.array(x, dtype=bool))
        if dtype in (int, _np.int64) and not has_sym(x):
            return _wrap(_np.array(x, dtype=int))
        if isinstance(x, _np.ndarray) and x.dtype != object:
            return _wrap(_np.array(x, dtype=dtype, **kw))
        r = _np.array(x, dtype=object)
        if r.ndim == 0:
            return r.view(SymArray)
        if r.size and all(isinstance(v, (bool, _np.bool_)) for v in r.flat):
            return r.astype(bool).view(SymArray)
        if r.size and all(isinstance(v, (int, _np.integer)) and not isinstance(v, bool) for v in r.flat) and dtype is None:
            return r.astype(int).view(SymArray)
        return r.view(SymArray)

    def asarray(self, x, dtype=None, **kw):
        if isinstance(x, _np.ndarray):
            return x
        return self.array(x, dtype=dtype)

    def stack(self, xs, axis=0, **kw):
        return _wrap(_np.stack([_o(x) for x in xs], axis=axis))

    def concatenate(self, xs, axis=0, **kw):
        return _wrap(_np.concatenate([_o(x) for x in xs], axis=axis))

    def einsum(self, *a, **k):
        return _einsum(*a, **k)

    def isclose(self, a, b, rtol=1e-5, atol=1e-8, **k):
        return _isclose(a, b, rtol=rtol, atol=atol)

    def allclose(self, a, b, rtol=1e-5, atol=1e-8, **k):
        return _allclose(a, b, rtol=rtol, atol=atol)

    def around(self, a, decimals=0, **k):
        return _around(a, decimals)
    round = around

    def log(self, a, **k):
        if isinstance(a, (list, tuple)):
            a = _np.array(list(a), dtype=object) if has_sym(a) or any(isinstance(x, Fraction) for x in a) else _np.asarray(a, dtype=float)
        if isinstance(a, _np.ndarray) and a.dtype != object:
            with _np.errstate(divide='ignore'):
                return _wrap(_np.log(a.view(_np.ndarray)))
        if isinstance(a, _np.ndarray):
            return elementwise(_log, a)
        return _log(a)

    def exp(self, a, **k):
        if isinstance(a, (list, tuple)):
            a = _np.array(list(a), dtype=object)
        if isinstance(a, _np.ndarray) and a.dtype != object:
            return _np.exp(a)
        if isinstance(a, _np.ndarray):
            return elementwise(_exp, a)
        return _exp(a)

    def abs(self, a, **k):
        if isinstance(a, _np.ndarray):
            return _absf(a) if a.dtype == object else _np.abs(a)
        return abs(a)
    absolute = abs

    def max(self, a, axis=None, **k):
        if isinstance(a, _np.ndarray) and a.dtype != object:
            return _np.max(a, axis=axis, **k)
        return SymArray(a).max(axis=axis, keepdims=k.get('keepdims', False))
    amax = max

    def min(self, a, axis=None, **k):
        if isinstance(a, _np.ndarray) and a.dtype != object:
            return _np.min(a, axis=axis, **k)
        return SymArray(a).min(axis=axis, keepdims=k.get('keepdims', False))
    amin = min

    def sum(self, a, axis=None, **k):
        if isinstance(a, _np.ndarray) and a.dtype != object:
            return _np.sum(a, axis=axis, **k)
        return SymArray(a).sum(axis=axis, keepdims=k.get('keepdims', False))

    def isnan(self, a, **k):
        if isinstance(a, _np.ndarray):
            return _isnan_f(a) if a.dtype == object else _np.isnan(a)
        return _isnan(a)

    def where(self, c, *xy):
        if isinstance(c, _np.ndarray) and c.dtype != object and not any(has_sym(v) for v in xy):
            return _np.where(c, *xy)
        return _where(c, *xy)

    def maximum(self, a, b, **k):
        return _np.maximum(a, b) if not (has_sym(a) or has_sym(b)) else elementwise(smax2, a, b)

    def minimum(self, a, b, **k):
        return _np.minimum(a, b) if not (has_sym(a) or has_sym(b)) else elementwise(smin2, a, b)

    def argmax(self, a, axis=None, **k):
        if isinstance(a, _np.ndarray) and a.dtype != object:
            return _np.argmax(a, axis=axis)
        return argmax(a, axis)

    def unique(self, a, axis=None, **k):
        return _unique(a, axis=axis, **k)

    def all(self, a, axis=None, **k):
        if isinstance(a, _np.ndarray) and a.dtype == object:
            return SymArray(a).all(axis=axis)
        if isinstance(a, (SymBool,)):
            return a
        return _np.all(a, axis=axis, **k)

    def any(self, a, axis=None, **k):
        if isinstance(a, _np.ndarray) and a.dtype == object:
            return SymArray(a).any(axis=axis)
        if isinstance(a, (SymBool,)):
            return a
        return _np.any(a, axis=axis, **k)


class _LinalgFacade:
    solve = staticmethod(_solve)
    inv = staticmethod(_linv)
    det = staticmethod(_det)
    LinAlgError = _np.linalg.LinAlgError

    def __getattr__(self, k):
        return getattr(_np.linalg, k)


np = NPFacade()
