"""C01 — value iteration (both implementations) and policy iteration are optimal."""
from fractions import Fraction as F

from symx import core, stubs
from symx.core import is_sym, ssum
from symx.stubs import facade, shadow, fork_isclose
from harness.common import (Shape, curated_shapes, proper_shapes, generated_shapes, build_mdp, sym_rewards, implicit_absorbing,
                            bellman_optimal, policy_value)

PROPERTY = 'C01'
FUNCTIONS = [
    'msdm.algorithms.valueiteration.ValueIteration.{plan_on,_vectorized_plan_on,_dict_plan_on}',
    'msdm.algorithms.valueiteration.{value_iteration_vectorized,value_iteration_tabular}',
    'msdm.algorithms.policyiteration.PolicyIteration.{plan_on,batch_plan_on}',
    'msdm.algorithms.policyiteration.policy_iteration_vectorized',
    'msdm.core.mdp.tabularmdp.TabularMarkovDecisionProcess.{state_list,action_list,transition_matrix,reward_matrix,'
    'state_action_reward_matrix,action_matrix,absorbing_state_vec,_unable_to_reach_absorbing,dead_end_state_vec,initial_state_vec}',
    'msdm.core.mdp.tables.{StateTable,StateActionTable}.*', 'msdm.core.mdp.tabularpolicy.TabularPolicy.{from_*,action_dist}',
    'msdm.core.table.*',
]
ASSUMPTIONS = [
    'numpy facade: object arrays of symbolic reals; np.max/isclose/all merged into If/And terms; np.linalg.solve = fresh '
    'unknowns constrained by A x = b with numpy>=2 shape rules; floyd_warshall on the (concrete) adjacency calls scipy',
    'builtin max/min shadowed by If-merging versions inside msdm.algorithms.valueiteration (same values, no fork)',
    'warnings.warn is a no-op',
    'transition probabilities and discount come from rational menus (concrete); rewards, residual threshold, placeholder are symbolic',
    'gamma = 1 harnesses restrict to goal-reaching skeletons (unique Bellman fixed point) plus states that cannot reach a goal',
]
OUTSIDE = ['more sweeps than the unrolling bound K (paths that hit the cap are counted as cut and must report converged == False)',
           'state counts above the bound', 'symbolic transition probabilities', 'floating-point rounding']

SHAPES = curated_shapes()
NCUR = len(SHAPES)
SHAPES = SHAPES + generated_shapes(60, smax=3, amax=3)      # thorough tier only (indices >= NCUR)
PROPER = proper_shapes()
GAMMAS = [F(1, 2), F(9, 10)]
MERGE_PI = True


def bounds(tier):
    return dict(shapes=[s.name for s in SHAPES[:NCUR]] + [s.name for s in PROPER] + ([f'{len(SHAPES) - NCUR} generated skeletons (2-3 states, 1-3 actions)'] if tier != 'quick' else []),
                states='1..3 (4 for one goal-reaching shape)', actions='1..2 (3 in generated skeletons)', gammas=['1/2', '9/10', '1'], vi_sweeps=5,
                pi_rounds='|A|^S + 1', rewards='[-1,1] symbolic ([-1,0] at gamma=1)', residual='(0,1] symbolic')


def _labels(sh, lab):
    if lab == 'str':
        return sh.with_(slabels=['s%d' % i for i in range(sh.S)], alabels=['x', 'y', 'z'][:sh.A])
    if lab == 'mixed':
        return sh.with_(slabels=[(i, 'q') for i in range(sh.S)], alabels=[('a', i) for i in range(sh.A)])
    return sh


def _check_policy_rows(sx, sh, res, absorbing, Qs, band, tagp):
    """policy rows: distributions, uniform over their support, support within available near-optimal actions"""
    L, AL = sh.slabels, sh.alabels
    support = {}
    for s in range(sh.S):
        row = res.policy.action_dist(L[s])
        its = dict(row.items())
        probs = {a: its.get(AL[a], 0) for a in range(sh.A)}
        sx.prove_eq(ssum(probs.values()), 1, f'{tagp}policy-row-sums-to-1[{s}]')
        for a in range(sh.A):
            if a not in sh.avail[s]:
                sx.prove(probs[a] == 0, f'{tagp}unavailable-action-prob-0[{s},{a}]')
        if s in absorbing or not sh.avail[s]:
            continue
        sup = [a for a in sh.avail[s] if bool(probs[a] > 0)]
        support[s] = sup
        for a in sup:
            sx.prove_eq(probs[a] * len(sup), 1, f'{tagp}policy-uniform-on-support[{s},{a}]')
        qmax = None
        for a in sh.avail[s]:
            qmax = Qs[(s, a)] if qmax is None else core.smax2(qmax, Qs[(s, a)])
        for a in sup:
            sx.prove_le(qmax - band, Qs[(s, a)], f'{tagp}support-near-optimal[{s},{a}]')
        for a in sh.avail[s]:
            # an action better than every other by more than the band must get all the mass
            others = [Qs[(s, b)] for b in sh.avail[s] if b != a]
            if others:
                strictly = core.sall([Qs[(s, a)] > o + band for o in others])
                sx.prove(core.snot(strictly) | (probs[a] == 1) if is_sym(strictly) else ((not strictly) or probs[a] == 1),
                         f'{tagp}strict-best-gets-all[{s},{a}]')
    return support


def _oracle_q(sx, sh, rew, absorbing, v, dead=()):
    """one-step look-ahead of arbitrary values v on the masked model, written independently"""
    g = sh.gamma
    Q = {}
    for s in range(sh.S):
        for a in sh.avail[s]:
            if s in absorbing or s in dead:
                Q[(s, a)] = 0
            else:
                Q[(s, a)] = ssum(sx.const(p) * (rew[(s, a, ns)] + sx.const(g) * (0 if (ns in absorbing or ns in dead) else v[ns]))
                                 for ns, p in sh.rows[(s, a)].items() if p > 0)
    return Q


def _check_greedy_rows(sx, sh, res, absorbing, q, tagp=''):
    """policy rows relative to the planner's own action values q: distribution, zero off the available
    actions, uniform over a support that contains every exact maximiser and only isclose-maximisers"""
    L, AL = sh.slabels, sh.alabels
    for s in range(sh.S):
        row = res.policy.action_dist(L[s])
        its = dict(row.items())
        probs = {a: its.get(AL[a], 0) for a in range(sh.A)}
        sx.prove_eq(ssum(probs.values()), 1, f'{tagp}policy-row-sums-to-1[{s}]')
        for a in range(sh.A):
            if a not in sh.avail[s]:
                sx.prove(probs[a] == 0, f'{tagp}unavailable-action-prob-0[{s},{a}]')
        if s in absorbing or not sh.avail[s]:
            continue
        qmax = None
        for a in sh.avail[s]:
            qmax = q[(s, a)] if qmax is None else core.smax2(qmax, q[(s, a)])
        iso = 1e-8 + 1e-5 * abs(qmax)  # numpy.isclose defaults, the float constants exactly
        n_sup = ssum(core.zif(probs[a] > 0, 1, 0) for a in sh.avail[s])
        for a in sh.avail[s]:
            insup = probs[a] > 0
            sx.prove(core.snot(insup) | (q[(s, a)] >= qmax - iso) if is_sym(insup) else ((not insup) or q[(s, a)] >= qmax - iso),
                     f'{tagp}support-only-maximisers[{s},{a}]')
            ismax = q[(s, a)] >= qmax
            sx.prove(core.snot(ismax) | insup if is_sym(ismax) else ((not ismax) or insup), f'{tagp}maximiser-in-support[{s},{a}]')
            # uniform: p * |support| == 1 on the support
            sx.prove(core.snot(insup) | sx.close(probs[a] * n_sup, 1) if is_sym(insup) else ((not insup) or sx.close(probs[a] * n_sup, 1)),
                     f'{tagp}policy-uniform-on-support[{s},{a}]')


def _warm_mdp(sx, sh):
    """a different problem over the same labels for planner-reuse runs: constant rewards, state 0 absorbing as well"""
    shw = sh.with_(absorb=sorted(set(sh.absorb) | {0}))
    rw = {(s, a, ns): sx.const(F(1 + ((2 * s + a + ns) % 4), 4)) for s in range(sh.S) for a in sh.avail[s] for ns in sh.rows[(s, a)]}
    return build_mdp(sx, shw, rw)


def vi_discounted(sx, shape, gamma, version, K, lab='int', direct=False, warm=False, int_flags=False):
    """full planner run, K unrolled sweeps.  Proved on every converged path:
    (i) reported action values are the one-step look-ahead (independent oracle, masked model) of the
    reported state values, (ii) the Bellman residual of the reported values is within the configured
    threshold -- which by the contraction lemma gives |V - V*| <= eps/(1-g) (vectorised) or g*eps/(1-g)
    (dict); with direct=True the bound is also proved directly against a fresh V* (small shapes)."""
    sh = _labels(SHAPES[shape].with_(gamma=F(gamma)), lab)
    g = sh.gamma
    rew = sym_rewards(sx, sh, -1, 1)
    eps = sx.real('eps', 0, 1, lo_open=True)
    from msdm.algorithms.valueiteration import ValueIteration
    L, AL = sh.slabels, sh.alabels
    with facade(sx), shadow(sx, ['msdm.algorithms.valueiteration']):
        # int_flags: is_absorbing answers with the integers 0 / 1 instead of booleans (equally truthy)
        mdp = build_mdp(sx, sh, rew, is_absorbing=(lambda s_: int(L.index(s_) in sh.absorb)) if int_flags else None)
        planner = ValueIteration(max_iterations=K, max_residual=eps, _version=version)
        if warm:        # the same planner object first plans on another problem: nothing may carry over
            with sx.must_not_raise('vi-plan(first problem)'):
                planner.plan_on(_warm_mdp(sx, sh))
        with sx.must_not_raise('vi-plan'):
            res = planner.plan_on(mdp)
        absorbing = implicit_absorbing(sh, rew)
        if not res.converged:
            sx.prove(res.iterations >= K - 1, 'not-converged-only-at-cap')
            sx.cut('sweep cap')
        v = {s: res.state_value[L[s]] for s in range(sh.S)}
        q = {}
        for s in range(sh.S):
            for a in range(sh.A):
                qq = res.action_value[L[s]][AL[a]] if version == 'dict' else res.action_value[L[s], AL[a]]
                if a not in sh.avail[s]:
                    sx.prove(core._is_inf(qq) and qq < 0, f'unavailable-action-value-neg-inf[{s},{a}]')
                else:
                    q[(s, a)] = qq
        oq = _oracle_q(sx, sh, rew, absorbing, v)
        for s in range(sh.S):
            if s in absorbing:
                sx.prove_eq(v[s], 0, f'absorbing-value-0[{s}]')
            for a in sh.avail[s]:
                if version == 'vectorized':
                    sx.prove_eq(q[(s, a)], oq[(s, a)], f'q-is-lookahead-of-v[{s},{a}]')
                else:
                    sx.prove_eq(q[(s, a)], oq[(s, a)], f'q-is-lookahead-of-v[{s},{a}]', tol=g * eps + F(1, 10**9))
            if sh.avail[s]:
                qmax = None
                for a in sh.avail[s]:
                    qmax = q[(s, a)] if qmax is None else core.smax2(qmax, q[(s, a)])
                if version == 'vectorized':
                    sx.prove_eq(v[s], qmax, f'bellman-residual-within-eps[{s}]', tol=eps)
                else:
                    sx.prove_eq(v[s], qmax, f'v-is-max-q[{s}]')
        sx.prove_eq(res.initial_value, ssum(sx.const(p) * v[s] for s, p in sh.s0.items()), 'initial-value')
        _check_greedy_rows(sx, sh, res, absorbing, q)
        if direct:
            Vs, Qs = bellman_optimal(sx, sh, rew, absorbing)
            slack = eps / (1 - g) if version == 'vectorized' else eps * g / (1 - g)
            for s in range(sh.S):
                if s not in absorbing:
                    sx.prove_le(v[s], Vs[s] + slack, f'value-upper[{s}]', tol=F(1, 10**8))
                    sx.prove_le(Vs[s] - slack, v[s], f'value-lower[{s}]', tol=F(1, 10**8))
            qslack = g * eps / (1 - g)
            iso = F(1, 10**8) + F(1, 10**5) * (1 / (1 - g))
            band = 2 * qslack + iso
            sup = _check_policy_rows(sx, sh, res, absorbing, Qs, band, 'direct-')
            pi = {s: {a: (F(1, len(sup[s])) if a in sup[s] else 0) for a in sh.avail[s]} for s in sup}
            W = policy_value(sx, sh, rew, absorbing, pi)
            for s in range(sh.S):
                if s not in absorbing:
                    sx.prove_le(Vs[s] - band / (1 - g), W[s], f'policy-return-near-optimal[{s}]', tol=F(1, 10**8))
        sx.observe('V', [v[s] for s in range(sh.S)])
        sx.observe('iv', res.initial_value)


def vi_versions_agree(sx, shape, gamma, K):
    sh = SHAPES[shape].with_(gamma=F(gamma))
    g = sh.gamma
    rew = sym_rewards(sx, sh, -1, 1)
    eps = sx.real('eps', 0, 1, lo_open=True)
    from msdm.algorithms.valueiteration import ValueIteration
    with facade(sx), shadow(sx, ['msdm.algorithms.valueiteration']):
        m1 = build_mdp(sx, sh, rew)
        m2 = build_mdp(sx, sh, rew)
        r1 = ValueIteration(max_iterations=K, max_residual=eps, _version='vectorized').plan_on(m1)
        r2 = ValueIteration(max_iterations=K, max_residual=eps, _version='dict').plan_on(m2)
        if not (r1.converged and r2.converged):
            sx.cut('sweep cap')
        slack = eps / (1 - g) + eps * g / (1 - g)
        for s in range(sh.S):
            sx.prove_le(r1.state_value[s] - r2.state_value[s], slack, f'agree-a[{s}]', tol=F(1, 10**8))
            sx.prove_le(r2.state_value[s] - r1.state_value[s], slack, f'agree-b[{s}]', tol=F(1, 10**8))
        sx.prove(list(r1.state_value.state_list) == list(r2.state_value.state_list), 'same-state-list')


def vi_undiscounted(sx, shape, version, K, extra_dead=False, undef='sym', dead_prob='1/2', wide_dead=False):
    """gamma = 1, non-positive rewards, goal-reaching skeletons (+ optionally a state that cannot reach a goal; the placeholder
    reported there is symbolic or infinite; the state may be listed in the initial distribution with probability exactly 0)"""
    sh = PROPER[shape]
    if extra_dead:
        # add a state S (self-loop, negative reward possible) that can never reach the absorbing state
        S = sh.S
        rows = dict(sh.rows)
        rows[(S, 0)] = {S: F(1)}
        dp = F(dead_prob)
        s0 = {k: v * (1 - dp) for k, v in sh.s0.items()}
        s0[S] = dp
        avail = [list(a) for a in sh.avail] + [[0]]
        nA = sh.A
        if wide_dead:
            # the never-terminating state has TWO available actions and lacks a third one that exists elsewhere (at state 0)
            rows[(S, 1)] = {S: F(1)}
            avail[S] = [0, 1]
            rows[(0, nA)] = dict(rows[(0, sh.avail[0][0])])
            avail[0] = avail[0] + [nA]
            nA += 1
        sh = Shape(S + 1, nA, avail, rows, absorb=sh.absorb, s0=s0, gamma=F(1), name=sh.name + '+dead')
    rew = sym_rewards(sx, sh, -1, 0)
    eps = sx.real('eps', 0, 1, lo_open=True)
    dummy = sx.real('undefined_value', -5, 5)
    undef = dummy if undef == 'sym' else float(undef)
    from msdm.algorithms.valueiteration import ValueIteration
    with facade(sx), shadow(sx, ['msdm.algorithms.valueiteration']):
        # (a state listed with probability 0 and not reachable otherwise belongs to the problem only through an explicit state list)
        mdp = build_mdp(sx, sh, rew, explicit_lists=extra_dead and F(dead_prob) == 0)
        with sx.must_not_raise('vi-plan'):
            res = ValueIteration(max_iterations=K, max_residual=eps, undefined_value=undef, _version=version).plan_on(mdp)
        absorbing = implicit_absorbing(sh, rew)
        # states that cannot reach an absorbing state (concrete graph search on the skeleton)
        cant = {s for s in range(sh.S) if s not in absorbing and not (sh.reach_from([s]) & absorbing)}
        if not res.converged:
            sx.cut('sweep cap')
        Vs, Qs = bellman_optimal(sx, sh, rew, absorbing, dead=cant)
        for s in range(sh.S):
            v = res.state_value[s]
            if s in absorbing:
                sx.prove_eq(v, 0, f'absorbing-value-0[{s}]')
            elif s in cant:
                sx.prove_eq(v, undef, f'placeholder-at-unreaching[{s}]')
            else:
                # iterates decrease monotonically from 0 towards V*: never below it
                sx.prove_le(Vs[s], v, f'value-not-below-optimal[{s}]', tol=F(1, 10**8))
                sx.prove_le(v, 0, f'value-non-positive[{s}]')
        # policy rows everywhere (also at states that carry the placeholder): a distribution over AVAILABLE actions only
        for s in range(sh.S):
            its = dict(res.policy.action_dist(s).items())
            sx.prove_eq(ssum(its.values()), 1, f'policy-row-sums-to-1[{s}]')
            for a in range(sh.A):
                if a not in sh.avail[s]:
                    sx.prove_eq(its.get(sh.alabels[a], 0), 0, f'unavailable-action-prob-0[{s},{a}]', tol=0)
        # expectation of the reported values over the initial distribution (states of probability 0 do not count, whatever they hold)
        sx.prove_eq(res.initial_value, ssum(sx.const(p) * res.state_value[s] for s, p in sh.s0.items() if p > 0), 'initial-value')
        sx.observe('V', [res.state_value[s] for s in range(sh.S)])


def pi_batch(sx, order, mixed_discount=False):
    """PolicyIteration.batch_plan_on on TWO undiscounted problems of equal shape whose never-terminating states differ: every
    result is the one plan_on gives for that problem alone (values, placeholder rows, initial value, policy)"""
    H = F(1, 2)
    shA = Shape(3, 2, [[0, 1], [0, 1], [0]], {(0, 0): {1: 1}, (0, 1): {0: H, 2: H}, (1, 0): {2: 1}, (1, 1): {0: H, 2: H}, (2, 0): {2: 1}},
                absorb=[2], gamma=F(1), s0={0: H, 1: H}, name='all-reach-goal')
    shB = Shape(3, 2, [[0, 1], [0, 1], [0]], {(0, 0): {1: 1}, (0, 1): {0: H, 2: H}, (1, 0): {1: 1}, (1, 1): {1: 1}, (2, 0): {2: 1}},
                absorb=[2], gamma=F(1), s0={0: H, 1: H}, name='state-1-never-terminates')
    rewA = sym_rewards(sx, shA, -1, 0, tag='ra')
    rewB = {(s_, a_, ns_): sx.const(F(-(1 + (s_ + a_) % 3), 4)) for s_ in range(3) for a_ in shB.avail[s_] for ns_ in shB.rows[(s_, a_)]}
    from msdm.algorithms.policyiteration import PolicyIteration
    K = 2 ** 3 + 2
    with facade(sx), fork_isclose(merge=MERGE_PI):
        if mixed_discount:
            # the first problem's discount rate is the INTEGER 1, the other problem is discounted (9/10)
            shB = shB.with_(gamma=F(9, 10))
        mA, mB = build_mdp(sx, shA, rewA), build_mdp(sx, shB, rewB)
        if mixed_discount:
            mA.discount_rate = 1
        batch = [(shA, rewA, mA), (shB, rewB, mB)]
        if order == 'BA':
            batch.reverse()
        with sx.must_not_raise('pi-batch-plan'):
            results = PolicyIteration(max_iterations=K).batch_plan_on([m for _, _, m in batch])
        sx.prove(len(results) == 2, 'one-result-per-problem')
        isomax = F(1, 10**8) + F(1, 10**5) * 8 + F(1, 10**7)
        for k, ((sh, rew, _), res) in enumerate(zip(batch, results)):
            _pi_common(_Tag(sx, f'batch[{k}:{sh.name}]:'), sh, rew, res, sh.gamma, False, isomax)


class _Tag:
    """prefixes obligation labels of a delegated check"""
    def __init__(self, sx, tag):
        self._sx, self._tag = sx, tag

    def __getattr__(self, k):
        v = getattr(self._sx, k)
        if k in ('prove', 'prove_eq', 'prove_le'):
            pos = 1 if k == 'prove' else 2
            tag = self._tag

            def f(*a, **kw):
                a = list(a)
                if len(a) > pos:
                    a[pos] = tag + a[pos]
                elif 'label' in kw:
                    kw['label'] = tag + kw['label']
                return v(*a, **kw)
            return f
        return v


def vi_exact_when_rewards_zero_tail(sx, shape, version):
    """acyclic-in-effect case: with deterministic one-step-to-goal rewards the fixed point is reached
    in S sweeps; value must equal V* exactly (gamma=1)"""
    sh = PROPER[shape]
    rew = sym_rewards(sx, sh, -1, 0)
    from msdm.algorithms.valueiteration import ValueIteration
    K = 40
    with facade(sx), shadow(sx, ['msdm.algorithms.valueiteration']):
        mdp = build_mdp(sx, sh, rew)
        res = ValueIteration(max_iterations=K, max_residual=sx.const(F(1, 1000)), _version=version).plan_on(mdp)
        if not res.converged:
            sx.cut('sweep cap')
        absorbing = implicit_absorbing(sh, rew)
        Vs, _ = bellman_optimal(sx, sh, rew, absorbing)
        for s in range(sh.S):
            if s not in absorbing:
                sx.prove_le(Vs[s], res.state_value[s], f'value-not-below-optimal[{s}]', tol=F(1, 10**8))


def _pi_common(sx, sh, rew, res, g, direct, isomax):
    L, AL = sh.slabels, sh.alabels
    absorbing = implicit_absorbing(sh, rew)
    # g = 1: states that cannot reach an absorbing state carry the placeholder (default 0) in every reported entry
    cant = {s for s in range(sh.S) if s not in absorbing and not (sh.reach_from([s]) & absorbing)} if g == 1 else set()
    if not res.converged:
        sx.cut('round cap')
    v = {s: res.state_value[L[s]] for s in range(sh.S)}
    q = {}
    for s in range(sh.S):
        for a in range(sh.A):
            qq = res.action_value[L[s], AL[a]]
            if s in cant:
                sx.prove_eq(qq, 0, f'placeholder-at-unreaching-q[{s},{a}]')
                if a in sh.avail[s]:
                    q[(s, a)] = qq
            elif a not in sh.avail[s]:
                sx.prove(core._is_inf(qq) and qq < 0, f'unavailable-action-value-neg-inf[{s},{a}]')
            else:
                q[(s, a)] = qq
    oq = _oracle_q(sx, sh, rew, absorbing, v, dead=cant)
    for s in range(sh.S):
        if s in absorbing:
            sx.prove_eq(v[s], 0, f'absorbing-value-0[{s}]')
        if s in cant:
            sx.prove_eq(v[s], 0, f'placeholder-at-unreaching[{s}]')
            continue
        for a in sh.avail[s]:
            # q = R + g P x with x the exact value of a policy that is isclose-greedy for q, v = max q = T x
            sx.prove_eq(q[(s, a)], oq[(s, a)], f'pi-q-is-lookahead-of-v[{s},{a}]', tol=g * isomax + F(1, 10**9))
        if sh.avail[s]:
            qmax = None
            for a in sh.avail[s]:
                qmax = q[(s, a)] if qmax is None else core.smax2(qmax, q[(s, a)])
            sx.prove_eq(v[s], qmax, f'pi-v-is-max-q[{s}]')
    sx.prove_eq(res.initial_value, ssum(sx.const(p) * v[s] for s, p in sh.s0.items()), 'initial-value')
    _check_greedy_rows(sx, sh, res, absorbing | cant, q, 'pi-')
    if direct:
        Vs, Qs = bellman_optimal(sx, sh, rew, absorbing, dead=cant)
        tol = (2 * isomax / (1 - g)) if g < 1 else F(1, 100)
        for s in range(sh.S):
            if s not in absorbing and s not in cant:
                sx.prove_eq(v[s], Vs[s], f'pi-value-optimal[{s}]', tol=tol)
                for a in sh.avail[s]:
                    sx.prove_eq(q[(s, a)], Qs[(s, a)], f'pi-q-optimal[{s},{a}]', tol=tol)
        if g < 1:
            band = 2 * tol + isomax
            sup = _check_policy_rows(sx, sh, res, absorbing, Qs, band, 'pi-direct-')
            pi = {s: {a: (F(1, len(sup[s])) if a in sup[s] else 0) for a in sh.avail[s]} for s in sup}
            W = policy_value(sx, sh, rew, absorbing, pi)
            for s in range(sh.S):
                if s not in absorbing:
                    sx.prove_le(Vs[s] - band / (1 - g), W[s], f'pi-policy-return-optimal[{s}]', tol=F(1, 10**8))
    sx.observe('V', [v[s] for s in range(sh.S)])


def pi_discounted(sx, shape, gamma, lab='int', direct=False, warm=False):
    """policy iteration through its batch entry point.  Proved on every converged path: the reported
    action values are within g*iso of the one-step look-ahead (independent oracle) of the reported state
    values and v = max_a q, i.e. Bellman residual <= g*iso (iso = isclose tolerance), hence
    |v - V*| <= g*iso/(1-g) by the contraction lemma; direct=True proves the bound against a fresh V*."""
    sh = _labels(SHAPES[shape].with_(gamma=F(gamma)), lab)
    g = sh.gamma
    rew = sym_rewards(sx, sh, -1, 1)
    from msdm.algorithms.policyiteration import PolicyIteration
    K = (sh.A ** sh.S) + 2
    with facade(sx), fork_isclose(merge=MERGE_PI):
        mdp = build_mdp(sx, sh, rew)
        planner = PolicyIteration(max_iterations=K)
        if warm:
            with sx.must_not_raise('pi-plan(first problem)'):
                planner.plan_on(_warm_mdp(sx, sh))
        with sx.must_not_raise('pi-plan'):
            res = planner.plan_on(mdp)
        isomax = F(1, 10**8) + F(1, 10**5) * (1 / (1 - g)) + F(1, 10**7)
        _pi_common(sx, sh, rew, res, g, direct, isomax)


def pi_undiscounted(sx, shape, direct=False):
    sh = PROPER[shape]
    rew = sym_rewards(sx, sh, -1, 0)
    from msdm.algorithms.policyiteration import PolicyIteration
    K = (sh.A ** sh.S) + 2
    with facade(sx), fork_isclose(merge=MERGE_PI):
        mdp = build_mdp(sx, sh, rew)
        with sx.must_not_raise('pi-plan'):
            res = PolicyIteration(max_iterations=K).plan_on(mdp)
        # |values| <= 8 on these goal-reaching skeletons (expected steps <= 8, rewards in [-1,0])
        isomax = F(1, 10**8) + F(1, 10**5) * 8 + F(1, 10**7)
        _pi_common(sx, sh, rew, res, sh.gamma, direct, isomax)


def vi_step(sx, shape, gamma):
    """inductive step: ONE sweep of value_iteration_vectorized from an ARBITRARY value vector is the
    Bellman operator of the (already masked) model; exit test and returned iterate as documented"""
    sh = SHAPES[shape].with_(gamma=F(gamma))
    g = sh.gamma
    rew = sym_rewards(sx, sh, -1, 1, per_next_state=False)
    eps = sx.real('eps', 0, 1, lo_open=True)
    V0 = [sx.real(f"V0_{s}", -10, 10) for s in range(sh.S)]
    import numpy as rnp
    from msdm.algorithms import valueiteration as vi
    with facade(sx):
        if sx.sym:
            from symx.symnp import SymArray
            arr = lambda x: SymArray(x)
        else:
            arr = lambda x: rnp.array(x, dtype=float)
        T = [[[sx.const(sh.rows.get((s, a), {}).get(ns, 0)) for ns in range(sh.S)] for a in range(sh.A)] for s in range(sh.S)]
        R = [[(rew[(s, a, next(iter(sh.rows[(s, a)])))] if a in sh.avail[s] else 0) for a in range(sh.A)] for s in range(sh.S)]
        AM = rnp.array([[a in sh.avail[s] for a in range(sh.A)] for s in range(sh.S)], dtype=bool)
        sv, av, it = vi.value_iteration_vectorized(transition_matrix=arr(T), discount_rate=sx.const(g),
                                                   state_action_reward_matrix=arr(R), action_matrix=AM,
                                                   state_values=arr(V0), max_residual=eps, max_iterations=1)
        tv = {}
        for s in range(sh.S):
            qs = []
            for a in range(sh.A):
                if a in sh.avail[s]:
                    want = R[s][a] + sx.const(g) * ssum(T[s][a][ns] * V0[ns] for ns in range(sh.S))
                    sx.prove_eq(av[s, a], want, f'step-q[{s},{a}]')
                    qs.append(want)
                else:
                    sx.prove(core._is_inf(av[s, a]) and av[s, a] < 0, f'step-unavailable-neg-inf[{s},{a}]')
            m = qs[0]
            for x in qs[1:]:
                m = core.smax2(m, x)
            tv[s] = m
        conv = core.sall([sx.close(V0[s], tv[s], eps) for s in range(sh.S)])
        if conv:
            for s in range(sh.S):
                sx.prove_eq(sv[s], V0[s], f'step-exit-returns-previous-iterate[{s}]')
        else:
            for s in range(sh.S):
                sx.prove_eq(sv[s], tv[s], f'step-returns-bellman-backup[{s}]')
        sx.observe('sv', [sv[s] for s in range(sh.S)])


def vi_step_symbolic_gamma(sx, shape):
    """the same inductive step with a SYMBOLIC discount in (0,1] (polynomial identities of degree 2)"""
    sh = SHAPES[shape]
    rew = sym_rewards(sx, sh, -1, 1, per_next_state=False)
    g = sx.real('gamma', 0, 1, lo_open=True)
    V0 = [sx.real(f"V0_{s}", -10, 10) for s in range(sh.S)]
    import numpy as rnp
    from msdm.algorithms import valueiteration as vi
    with facade(sx):
        if sx.sym:
            from symx.symnp import SymArray
            arr = lambda x: SymArray(x)
        else:
            arr = lambda x: rnp.array(x, dtype=float)
        T = [[[sx.const(sh.rows.get((s, a), {}).get(ns, 0)) for ns in range(sh.S)] for a in range(sh.A)] for s in range(sh.S)]
        R = [[(rew[(s, a, next(iter(sh.rows[(s, a)])))] if a in sh.avail[s] else 0) for a in range(sh.A)] for s in range(sh.S)]
        AM = rnp.array([[a in sh.avail[s] for a in range(sh.A)] for s in range(sh.S)], dtype=bool)
        sv, av, it = vi.value_iteration_vectorized(transition_matrix=arr(T), discount_rate=g, state_action_reward_matrix=arr(R), action_matrix=AM,
                                                   state_values=arr(V0), max_residual=sx.const(F(1, 1000)), max_iterations=1)
        for s in range(sh.S):
            for a in sh.avail[s]:
                want = R[s][a] + g * ssum(T[s][a][ns] * V0[ns] for ns in range(sh.S))
                sx.prove_eq(av[s, a], want, f'step-q-symbolic-discount[{s},{a}]')


def sticky_state(sx, planner, gamma):
    """SYMBOLIC transition probabilities on one small skeleton: a zero-reward state that loops on itself with probability p
    (and leaks with 1-p), entered with symbolic probability u.  Only p == 1 makes it absorbing (documented rule); for every
    other p its reported values must be the look-ahead of the successors' values (Bellman consistency within the planner's
    threshold), i.e. it is planned through and not masked."""
    g = F(gamma)
    p = sx.real('p_loop', F(1, 2), 1)
    u = sx.real('u_enter', 0, 1)
    r0, r0b, r3 = sx.real('r_0_0', -1, 1), sx.real('r_0_1', -1, 1), sx.real('r_3_0', -1, 1)
    eps = sx.real('eps', 0, 1, lo_open=True)
    c = sx.const
    # 0: a0 -> sticky(1) w.p. u, else 3; a1 -> goal.   1 (sticky): one action, self-loop p / leak to 3, zero rewards.   3: -> goal(2), reward r3
    rows = {(0, 0): {1: u, 3: 1 - u}, (0, 1): {2: c(1)}, (1, 0): {1: p, 3: 1 - p}, (3, 0): {2: c(1)}, (2, 0): {2: c(1)}}
    rw = {(0, 0): r0, (0, 1): r0b, (1, 0): 0, (3, 0): r3, (2, 0): 0}
    avail = {0: [0, 1], 1: [0], 2: [0], 3: [0]}
    from msdm.core.mdp import QuickTabularMDP
    from msdm.core.distributions import DictDistribution
    from msdm.algorithms.valueiteration import ValueIteration
    from msdm.algorithms.policyiteration import PolicyIteration
    with facade(sx), shadow(sx, ['msdm.algorithms.valueiteration']), fork_isclose(merge=True):
        mdp = QuickTabularMDP(next_state_dist=lambda s, a: DictDistribution(rows[(s, a)]), reward=lambda s, a, ns: rw[(s, a)],
                              actions=lambda s: tuple(avail[s]), initial_state_dist=DictDistribution({0: c(F(1, 2)), 1: c(F(1, 2))}),
                              is_absorbing=lambda s: s == 2, discount_rate=c(g))
        mdp._state_list = (0, 1, 2, 3)
        mdp._action_list = (0, 1)
        with sx.must_not_raise('plan'):
            if planner == 'pi':
                res = PolicyIteration(max_iterations=4).plan_on(mdp)
            else:
                res = ValueIteration(max_iterations=3 if planner == 'vi-dict' else 4, max_residual=eps,
                                     _version='dict' if planner == 'vi-dict' else 'vectorized').plan_on(mdp)
        v = {s: res.state_value[s] for s in range(4)}
        q = {(s, a): (res.action_value[s][a] if planner == 'vi-dict' else res.action_value[s, a]) for s in range(4) for a in avail[s]}
        is_abs = bool(p == 1)      # the documented rule for the sticky state (its rewards are all zero, it has one action)
        sx.prove_eq(v[2], 0, 'goal-value-0')
        if is_abs:
            sx.prove_eq(v[1], 0, 'sticky-absorbing-when-p-is-exactly-1')
        val = lambda ns: 0 if (ns == 2 or (ns == 1 and is_abs)) else v[ns]
        # look-ahead consistency of the REPORTED tables on the documented model, on converged paths: exact for the vectorised
        # planners (q is computed from the returned v), within g*eps for the dict planner
        if not res.converged:
            sx.cut('sweep cap')
        tol = (g * eps if planner == 'vi-dict' else 0) + F(1, 10**9)
        for (s, a), qq in q.items():
            if s == 2 or (s == 1 and is_abs):
                continue
            want = ssum(pr * (rw[(s, a)] + c(g) * val(ns)) for ns, pr in rows[(s, a)].items())
            sx.prove_eq(qq, want, f'sticky-q-is-lookahead-of-v[{s},{a}]', tol=tol)
        sx.observe('V', [v[s] for s in range(4)])


def jobs(tier):
    if tier != 'quick':
        # thorough = every case of the quick tier + the generated skeletons + discount 9/10 for the symbolic-probability skeleton.
        # (Deeper unrollings, policy iteration on the dense 3-state skeleton and the four-state goal-reaching skeleton with a
        # never-terminating extra state were tried for this tier and did not finish within an hour on 16 cores.)
        o = dict(timeout_ms=60000, budget_s=1200, max_paths=6000)
        for i in range(NCUR, len(SHAPES)):
            yield ('vi_step', dict(shape=i, gamma='9/10'), o)
            yield ('vi_discounted', dict(shape=i, gamma='1/2', version='vectorized', K=4), o)
            if SHAPES[i].S * SHAPES[i].A <= 4:
                yield ('vi_discounted', dict(shape=i, gamma='1/2', version='dict', K=3), o)
                yield ('pi_discounted', dict(shape=i, gamma='1/2'), dict(o, cost=5))
        for pl in ['vi-vectorized', 'vi-dict', 'pi']:
            yield ('sticky_state', dict(planner=pl, gamma='9/10'), o)
        yield from jobs('quick')
        return
    quick = tier == 'quick'
    o = dict(timeout_ms=60000, budget_s=600 if quick else 1200, max_paths=6000)
    gam = [F(1, 2), F(9, 10)]
    dense = {4, 5}
    if not quick:
        for i in range(NCUR, len(SHAPES)):
            yield ('vi_step', dict(shape=i, gamma='9/10'), o)
            yield ('vi_discounted', dict(shape=i, gamma='1/2', version='vectorized', K=4), o)
            yield ('vi_discounted', dict(shape=i, gamma='1/2', version='dict', K=3), o)
            yield ('pi_discounted', dict(shape=i, gamma='1/2'), dict(o, cost=5))
    for i, sh in enumerate(SHAPES[:NCUR]):
        for g in gam:
            gs = str(g)
            yield ('vi_step', dict(shape=i, gamma=gs), o)
            if g == gam[0]:
                yield ('vi_step_symbolic_gamma', dict(shape=i), o)
            for ver in ['vectorized', 'dict']:
                if quick:
                    K = 3 if i in dense else (4 if ver == 'dict' else 5)
                else:
                    K = 3 if i in dense else (4 if ver == 'dict' else 5)      # (as in the quick tier: deeper unrollings did not finish within an hour; the thorough tier adds skeletons and variants instead)
                direct = (i not in dense)      # (dense skeletons: the distance to V* follows from the proved residual by the contraction lemma)
                if i in dense and ver == 'dict' and g != F(1, 2):
                    continue
                yield ('vi_discounted', dict(shape=i, gamma=gs, version=ver, K=K, direct=direct), dict(o, cost=10 if i in dense else 1))
            if i != 5:      # (policy iteration on the dense 3-state skeleton 'full3': more than an hour)
                yield ('pi_discounted', dict(shape=i, gamma=gs, direct=(i in (0, 1, 3))), dict(o, cost=5))
        if i not in dense:
            yield ('vi_versions_agree', dict(shape=i, gamma='1/2', K=3), o)
    for order in ['AB', 'BA']:
        yield ('pi_batch', dict(order=order), o)
        yield ('pi_batch', dict(order=order, mixed_discount=True), o)
    for pl in ['vi-vectorized', 'vi-dict', 'pi']:
        for gs in (['1/2'] if quick else ['1/2', '9/10']):
            yield ('sticky_state', dict(planner=pl, gamma=gs), o)
    yield ('vi_discounted', dict(shape=3, gamma='1/2', version='vectorized', K=4, lab='str'), o)
    for i in (1, 4):
        yield ('vi_discounted', dict(shape=i, gamma='1/2', version='vectorized', K=3, int_flags=True), o)
        yield ('vi_discounted', dict(shape=i, gamma='1/2', version='dict', K=3, int_flags=True), o)
    yield ('vi_discounted', dict(shape=3, gamma='1/2', version='dict', K=3, lab='mixed'), o)
    yield ('pi_discounted', dict(shape=3, gamma='1/2', lab='str'), o)
    for i in ([1, 3] if quick else [k for k in range(NCUR) if k not in dense]):
        yield ('vi_discounted', dict(shape=i, gamma='1/2', version='vectorized', K=4, warm=True), o)
        yield ('vi_discounted', dict(shape=i, gamma='1/2', version='dict', K=3, warm=True), o)
        yield ('pi_discounted', dict(shape=i, gamma='1/2', warm=True), o)
    for i, sh in enumerate(PROPER):
        if sh.S > 3:
            if not quick:      # the 4-state goal-reaching skeleton: plain runs only
                for ver in ['vectorized', 'dict']:
                    yield ('vi_undiscounted', dict(shape=i, version=ver, K=4), o)
            continue
        for ver in ['vectorized', 'dict']:
            K = 4
            yield ('vi_undiscounted', dict(shape=i, version=ver, K=K), o)
            yield ('vi_undiscounted', dict(shape=i, version=ver, K=K, extra_dead=True), o)
            yield ('vi_undiscounted', dict(shape=i, version=ver, K=K, extra_dead=True, wide_dead=True), o)
            if i == 0 or not quick:
                for un in ['-inf', 'inf']:
                    for dp in ['1/2', '0']:
                        yield ('vi_undiscounted', dict(shape=i, version=ver, K=K, extra_dead=True, undef=un, dead_prob=dp), o)
        yield ('pi_undiscounted', dict(shape=i, direct=(i == 0) or (not quick and sh.S <= 3)), o)
