"""C15 — augmented sub-tasks and options preserve the base MDP and stop at their goals."""
from fractions import Fraction as F
import itertools

from symx import core, stubs
from symx.core import is_sym, ssum
from symx.stubs import facade, shadow, NondetStream
from harness.common import Shape, curated_shapes, proper_shapes, build_mdp, sym_rewards

PROPERTY = 'C15'
FUNCTIONS = [
    'msdm.core.semimdp.option.augment', 'msdm.core.semimdp.option.Option.run_on',
    'msdm.core.semimdp.option.PlanToSubgoalOption.{sub_task,planning_result,policy,is_initial,is_terminal}',
    'msdm.core.semimdp.semimdp.SemiMarkovDecisionProcess.{actions,next_state_transit_time_reward_dist,next_state_transit_time_dist,'
    'next_state_dist,expected_cumulative_reward,run_simulations}', 'msdm.core.mdp.policy.Policy.run_on', 'msdm.core.distributions.utils.obj_seed',
]
ASSUMPTIONS = [
    'the base discount rate is a symbolic real in (0,1] (the solver must produce a value other than the class default to expose a fallback)',
    'rewards, the pseudo-reward cap are symbolic; roll-outs use the nondeterministic generator; option policies from a menu',
    'the sub-goal option planner in the harness is value iteration with 3 sweeps on concrete menu rewards (planning itself is C01)',
]
OUTSIDE = ['more than 4 states', 'options whose roll-outs exceed 4 primitive steps (cut)', 'quality of the plans inside options']

SHAPES = curated_shapes() + proper_shapes()
COMPONENTS = ['initial_state_dist', 'actions', 'next_state_dist', 'reward', 'is_absorbing', 'state_list', 'action_list']


def bounds(tier):
    return dict(skeletons=[s.name for s in SHAPES], overridden_subsets='all 2^7 (tabular base) / 2^5 (functional base)',
                base_discount='symbolic in (0,1]', option_step_limits='1..4', simulations='1..2')


def _base(sx, sh, tabular, gamma, rew):
    from msdm.core.mdp import QuickTabularMDP, QuickMDP
    m = build_mdp(sx, sh, rew, cls=QuickTabularMDP if tabular else QuickMDP)
    m.discount_rate = gamma
    return m


def augment_preserves(sx, shape, subset, tabular=True):
    """every component that is not overridden behaves exactly as in the base MDP"""
    sh = SHAPES[shape]
    L, AL = sh.slabels, sh.alabels
    from msdm.core.semimdp.option import augment
    from msdm.core.distributions import DictDistribution
    gamma = sx.real('gamma', 0, 1, lo_open=True)
    rew = sym_rewards(sx, sh, -1, 1)
    ov = [COMPONENTS[i] for i in subset]
    with facade(sx):
        base = _base(sx, sh, tabular, gamma, rew)
        marker = sx.real('marker', -9, 9)
        kw = {}
        if 'initial_state_dist' in ov:
            kw['initial_state_dist'] = lambda: DictDistribution({L[sh.S - 1]: 1})
        if 'actions' in ov:
            kw['actions'] = lambda s: (AL[sh.avail[L.index(s)][0]],)
        if 'next_state_dist' in ov:
            kw['next_state_dist'] = lambda s, a: DictDistribution({s: 1})
        if 'reward' in ov:
            kw['reward'] = lambda s, a, ns: marker
        if 'is_absorbing' in ov:
            kw['is_absorbing'] = lambda s: s == L[0]
        if 'state_list' in ov:
            kw['state_list'] = tuple(reversed(L))
        if 'action_list' in ov:
            kw['action_list'] = tuple(reversed(AL))
        with sx.must_not_raise('augment'):
            d = augment(base, **kw)
        sx.prove_eq(d.discount_rate, gamma, 'keeps-base-discount-rate', tol=0)
        # initial distribution
        want_init = {L[sh.S - 1]: 1} if 'initial_state_dist' in ov else {L[s]: sx.const(p) for s, p in sh.s0.items()}
        got_init = dict(d.initial_state_dist().items())
        sx.prove(set(got_init) == set(want_init), 'initial-support')
        for s0, p in want_init.items():
            sx.prove_eq(got_init.get(s0, 0), p, f'initial-prob[{L.index(s0)}]')
        for s in range(sh.S):
            want_abs = (s == 0) if 'is_absorbing' in ov else (s in sh.absorb)
            sx.prove(bool(d.is_absorbing(L[s])) == want_abs, f'is-absorbing[{s}]')
            want_acts = (AL[sh.avail[s][0]],) if 'actions' in ov else tuple(AL[a] for a in sh.avail[s])
            sx.prove(tuple(d.actions(L[s])) == want_acts, f'actions[{s}]')
            for a in sh.avail[s]:
                got = dict(d.next_state_dist(L[s], AL[a]).items())
                want = {L[s]: 1} if 'next_state_dist' in ov else {L[ns]: sx.const(p) for ns, p in sh.rows[(s, a)].items()}
                sx.prove(set(got) == set(want), f'next-state-support[{s},{a}]')
                for ns_l, p in want.items():
                    sx.prove_eq(got.get(ns_l, 0), p, f'next-state-prob[{s},{a},{L.index(ns_l)}]')
                for ns in sh.rows[(s, a)]:
                    r = d.reward(L[s], AL[a], L[ns])
                    sx.prove_eq(r, marker if 'reward' in ov else rew[(s, a, ns)], f'reward[{s},{a},{ns}]', tol=0)
        if tabular:
            want_sl = list(reversed(L)) if 'state_list' in ov else list(base.state_list)
            want_al = list(reversed(AL)) if 'action_list' in ov else list(base.action_list)
            sx.prove(list(d.state_list) == want_sl, 'state-list')
            sx.prove(d.action_list is not None and list(d.action_list) == want_al, 'action-list')
        sx.observe('g', d.discount_rate)


def subtask(sx, shape, goals, include_abs, capped):
    """a sub-goal option plans with the base MDP's discount and rewards except where clipped"""
    sh = SHAPES[shape]
    L, AL = sh.slabels, sh.alabels
    from msdm.core.semimdp.option import PlanToSubgoalOption
    gamma = sx.real('gamma', 0, 1, lo_open=True)
    rew = sym_rewards(sx, sh, -2, 2)
    cap = sx.real('max_nonterminal_pseudoreward', -2, 2) if capped else float('inf')
    with facade(sx):
        base = _base(sx, sh, True, gamma, rew)
        opt = PlanToSubgoalOption(mdp=base, initial_states=[L[0]], subgoals=[L[g] for g in goals], planner=None,
                                  include_mdp_absorbing_states=include_abs, name='opt', max_nonterminal_pseudoreward=cap)
        with sx.must_not_raise('sub_task'):
            st = opt.sub_task
        sx.prove_eq(st.discount_rate, gamma, 'sub-task-keeps-base-discount', tol=0)
        for s in range(sh.S):
            want_abs = (s in goals) or (include_abs and s in sh.absorb)
            sx.prove(bool(st.is_absorbing(L[s])) == want_abs, f'sub-task-absorbing[{s}]')
            sx.prove(bool(opt.is_terminal(L[s])) == (s in goals), f'is-terminal[{s}]')
            sx.prove(tuple(st.actions(L[s])) == tuple(AL[a] for a in sh.avail[s]), f'sub-task-actions[{s}]')
            for a in sh.avail[s]:
                got = dict(st.next_state_dist(L[s], AL[a]).items())
                for ns, p in sh.rows[(s, a)].items():
                    sx.prove_eq(got.get(L[ns], 0), sx.const(p), f'sub-task-transition[{s},{a},{ns}]')
                    r = st.reward(L[s], AL[a], L[ns])
                    real = rew[(s, a, ns)]
                    if ns in goals or not capped:
                        sx.prove_eq(r, real, f'sub-task-reward-unclipped[{s},{a},{ns}]', tol=0)
                    else:
                        sx.prove_eq(r, core.smin2(real, cap), f'sub-task-reward-clipped[{s},{a},{ns}]', tol=0)
        init = dict(st.initial_state_dist().items())
        sx.prove(set(init) == {L[0]}, 'sub-task-initial-states')
        sx.observe('g', st.discount_rate)


class _MenuOption:
    pass


def _mk_option(sx, sh, kind, term, max_steps, name='go'):
    from msdm.core.semimdp.option import Option
    from msdm.core.mdp.policy import FunctionalPolicy
    from msdm.core.distributions import DictDistribution
    L, AL = sh.slabels, sh.alabels

    def act(s):
        av = sh.avail[L.index(s)]
        if kind == 'first' or len(av) == 1:
            return DictDistribution({AL[av[0]]: 1})
        if kind == 'last':
            return DictDistribution({AL[av[-1]]: 1})
        return DictDistribution({AL[a]: sx.const(F(1, len(av))) for a in av})

    class O(Option):
        def __init__(self):
            self.name = name
            self.policy = FunctionalPolicy(act)
            self.max_steps = max_steps

        def is_initial(self, s):
            return L.index(s) not in term

        def is_terminal(self, s):
            return L.index(s) in term

        def __hash__(self):
            return hash(self.name)
    return O()


def option_run(sx, shape, kind, term, start, max_steps):
    """executing an option ends exactly at the first terminal state (or raises at its step limit)"""
    sh = SHAPES[shape]
    L, AL = sh.slabels, sh.alabels
    from msdm.core.exceptions import AlgorithmException
    rew = sym_rewards(sx, sh, -1, 1)
    gamma = sx.real('gamma', 0, 1, lo_open=True)
    with facade(sx):
        base = _base(sx, sh, True, gamma, rew)
        opt = _mk_option(sx, sh, kind, set(term), max_steps)
        rng = NondetStream(1)
        try:
            res = opt.run_on(base, initial_state=L[start], rng=rng)
        except AlgorithmException:
            sx.prove(True, 'raises-algorithm-exception-at-limit')
            return
        except Exception as e:  # noqa: BLE001
            sx.prove(False, f'unexpected-exception:{type(e).__name__}')
            return
        steps = list(res)
        states = [L.index(st['state']) for st in steps]
        sx.prove(states[0] == start, 'starts-at-given-state')
        sx.prove(states[-1] in term, 'ends-at-a-terminal-state')
        sx.prove(all(s not in term for s in states[:-1]), 'no-earlier-terminal-state')
        sx.prove(len(steps) < max_steps, 'within-step-limit')
        for t, st in enumerate(steps[:-1]):
            s, a, ns = states[t], AL.index(st['action']), L.index(st['next_state'])
            sx.prove(sh.rows[(s, a)].get(ns, 0) > 0 and states[t + 1] == ns, f'real-transition[{t}]')
            sx.prove_eq(st['reward'], rew[(s, a, ns)], f'base-reward[{t}]', tol=0)


def semimdp(sx, shape, kind, term, start, nsim, primitive, again=False):
    sh = SHAPES[shape]
    L, AL = sh.slabels, sh.alabels
    from msdm.core.semimdp.semimdp import SemiMarkovDecisionProcess
    from msdm.core.exceptions import AlgorithmException
    rew = sym_rewards(sx, sh, -1, 1)
    gamma = sx.real('gamma', 0, 1, lo_open=True)
    with facade(sx):
        base = _base(sx, sh, False, gamma, rew)
        opt = _mk_option(sx, sh, kind, set(term), 5)
        smdp = SemiMarkovDecisionProcess(mdp=base, options=[opt], n_option_simulations=nsim, include_mdp_actions=True, seed=3)
        with sx.must_not_raise('semimdp-actions'):
            acts = smdp.actions(L[start])
        sx.prove(tuple(acts[:len(sh.avail[start])]) == tuple(AL[a] for a in sh.avail[start]), 'primitive-actions-offered')
        sx.prove((opt in acts) == (start not in term), 'option-offered-iff-initiation-set')
        if primitive:
            a = sh.avail[start][-1]
            d = smdp.next_state_transit_time_reward_dist(L[start], AL[a])
            items = list(d.items())
            sx.prove_eq(ssum(p for _, p in items), 1, 'primitive-normalised')
            for (ns, t, r), p in items:
                sx.prove(t == 1, 'primitive-duration-1')
                nsi = L.index(ns)
                sx.prove_eq(r, rew[(start, a, nsi)], 'primitive-reward', tol=0)
            for ns, pp in sh.rows[(start, a)].items():
                got = ssum(p for (n2, t, r), p in items if n2 == L[ns])
                sx.prove_eq(got, sx.const(pp), f'primitive-one-step-outcome[{ns}]')
            return
        if start in term:
            return
        def query_and_check(opt, term, nsim, tag):
            sims = []
            orig = smdp.__class__.run_simulations.__get__(smdp)

            def spy(s_, a_):
                r = orig(s_, a_)
                sims.append(r)
                return r
            smdp.run_simulations = spy
            try:
                d = smdp.next_state_transit_time_reward_dist(L[start], opt)
            except AlgorithmException:
                sx.cut('option hit its step limit')
            items = list(d.items())
            sx.prove(len(sims) == 1 and len(sims[0]) == nsim, f'{tag}n-simulations-run')
            sx.prove_eq(ssum(p for _, p in items), 1, f'{tag}option-outcome-normalised')
            # empirical distribution of (end state, number of primitive steps, discounted cumulative reward)
            emp = []
            for sim in sims[0]:
                steps = list(sim)
                end = steps[-1]['state']
                t = len(steps) - 1
                cum = ssum((gamma ** k) * st['reward'] for k, st in enumerate(steps[:-1]))
                emp.append((end, t, cum))
                sx.prove(L.index(end) in term, f'{tag}simulation-ends-at-terminal-state')
            groups = {}
            for (end, t, cum) in emp:
                groups.setdefault((end, t), []).append(cum)
            got_groups = {}
            for (ns, t, r), p in items:
                sx.prove(L.index(ns) in term, f'{tag}outcome-ends-in-the-options-terminal-set')
                got_groups.setdefault((ns, t), []).append((r, p))
            sx.prove(set(groups) == set(got_groups), f'{tag}outcome-support-is-empirical')
            # every reported triple is the triple of some simulation (outcomes with equal end state and duration are NOT merged)
            for (ns, t, r), p in items:
                cands = groups.get((ns, t), [])
                hit = core.sany([sx.close(r, cum) for cum in cands]) if cands else False
                sx.prove(hit, f'{tag}reported-reward-is-the-return-of-a-simulation[{L.index(ns)},{t}]')
            for k, cums in groups.items():
                gp = got_groups.get(k, [])
                sx.prove_eq(ssum(p for _, p in gp), F(len(cums), nsim), f'{tag}outcome-frequency[{L.index(k[0])},{k[1]}]')
                sx.prove_eq(ssum(r * p for r, p in gp), ssum(cums) / nsim, f'{tag}outcome-reward-mass[{L.index(k[0])},{k[1]}]')
            return items
        items = query_and_check(opt, set(term), nsim, '')
        if again:
            # further queries on the SAME semi-MDP object from the same state: another option that happens to carry the same
            # name (stops one state earlier), then the first option again after the number of simulations was changed
            term2 = {1} | set(term)
            opt2 = _mk_option(sx, sh, kind, term2, 5)
            if start not in term2:
                query_and_check(opt2, term2, nsim, 'second-option:')
            smdp.n_option_simulations = nsim + 1
            query_and_check(opt, set(term), nsim + 1, 'after-changing-n:')
        # marginals
        nsd = dict(smdp.next_state_dist(L[start], opt).items()) if False else None
        ecr = ssum(r * p for (ns, t, r), p in items)
        sx.observe('n', len({(ns, t) for (ns, t, r), p in items}))     # (entries with equal rewards merge on concrete numbers: count outcomes, not entries)


def jobs(tier):
    quick = tier == 'quick'
    o = dict(timeout_ms=30000, budget_s=600, max_paths=20000)
    subsets = [list(c) for r in range(0, 8) for c in itertools.combinations(range(7), r)]
    for i in ([1, 4] if quick else range(len(SHAPES))):
        for sub in subsets:
            yield ('augment_preserves', dict(shape=i, subset=sub, tabular=True), o)
        for sub in [s for s in subsets if all(x < 5 for x in s)]:
            yield ('augment_preserves', dict(shape=i, subset=sub, tabular=False), o)
    for i, sh in enumerate(SHAPES):
        for goals in ([[sh.S - 1]] + ([[0, sh.S - 1]] if sh.S > 2 else [])):
            for inc in [False, True]:
                for capped in [False, True]:
                    yield ('subtask', dict(shape=i, goals=goals, include_abs=inc, capped=capped), o)
    for i, sh in enumerate(SHAPES):
        if sh.S < 2:
            continue
        for kind in ['first', 'last', 'uniform']:
            for ms in ([2, 4] if quick else [1, 2, 3, 4, 5]):
                yield ('option_run', dict(shape=i, kind=kind, term=[sh.S - 1], start=0, max_steps=ms), o)
            yield ('option_run', dict(shape=i, kind=kind, term=[sh.S - 1], start=sh.S - 1, max_steps=3), o)
            for nsim in [1, 2]:
                yield ('semimdp', dict(shape=i, kind=kind, term=[sh.S - 1], start=0, nsim=nsim, primitive=False), dict(o, cost=5))
            yield ('semimdp', dict(shape=i, kind=kind, term=[sh.S - 1], start=0, nsim=1, primitive=True), o)
            if sh.S > 2 and kind != 'uniform':     # (three more sets of roll-outs: deterministic option policies only)
                yield ('semimdp', dict(shape=i, kind=kind, term=[sh.S - 1], start=0, nsim=1, primitive=False, again=True), dict(o, cost=5))
