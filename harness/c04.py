"""C04 — LRTDP stays an upper bound and ends within the error margin of optimal."""
from fractions import Fraction as F

from symx import core, stubs
from symx.core import is_sym, ssum
from symx.stubs import facade, shadow
from harness.common import Shape, proper_shapes, build_mdp, sym_rewards, bellman_optimal, policy_value

PROPERTY = 'C04'
FUNCTIONS = ['msdm.algorithms.lrtdp.LRTDP.{plan_on,_set_up_plan_on,lrtdp,lrtdp_trial,_check_solved,_bellman_update,Q,policy,_tear_down_plan_on}',
             'msdm.core.utils.dictutils.defaultdict2', 'msdm.core.distributions.distributions.FiniteDistribution.{sample,expectation}']
ASSUMPTIONS = [
    'the trial sampler is a nondeterministic generator: every sampled successor / start state / shuffle is a solver-chosen outcome, so all '
    'trial histories within the bound are explored', 'rewards in [-1,0] and the heuristic are symbolic; the heuristic is constrained only by '
    'admissibility h >= V* (V* = fresh unknowns pinned by the Bellman optimality equations of the goal-reaching skeleton) and h <= 2',
    'the error margin is symbolic in (0,1]', 'transition probabilities and discount from rational menus',
]
OUTSIDE = ['termination for every history (a nondeterministic sampler can avoid the goal forever): histories longer than the bound are cut and counted',
           'more than 4 states', 'rounding']

H, Q1, Q3 = F(1, 2), F(1, 4), F(3, 4)


def shapes():
    out = []
    out.append(Shape(2, 2, [[0, 1], [0]], {(0, 0): {0: H, 1: H}, (0, 1): {1: 1}, (1, 0): {1: 1}}, absorb=[1], gamma=F(1), s0={0: H, 1: H},
                     name='two-absorbing-start'))
    out.append(Shape(3, 2, [[0, 1], [0, 1], [0]], {(0, 0): {1: 1}, (0, 1): {0: Q1, 2: Q3}, (1, 0): {2: 1}, (1, 1): {0: H, 2: H}, (2, 0): {2: 1}},
                     absorb=[2], gamma=F(1), s0={0: H, 1: H}, name='three-two-starts'))
    out.append(Shape(3, 2, [[0, 1], [0, 1], [0]], {(0, 0): {1: 1}, (0, 1): {0: Q1, 2: Q3}, (1, 0): {2: 1}, (1, 1): {0: H, 2: H}, (2, 0): {2: 1}},
                     absorb=[2], gamma=F(9, 10), s0={0: 1}, name='three-discounted'))
    out.append(Shape(4, 2, [[0, 1], [0], [0, 1], [0]], {(0, 0): {1: H, 2: H}, (0, 1): {3: Q1, 0: Q3}, (1, 0): {3: 1}, (2, 0): {3: H, 2: H}, (2, 1): {1: 1}, (3, 0): {3: 1}},
                     absorb=[3], gamma=F(1), s0={0: H, 3: H}, name='four-branching'))
    return out


SHAPES = shapes()


def bounds(tier):
    return dict(skeletons=[s.name for s in SHAPES], trials='<= 3 (quick) / 2-4 (thorough)', steps_per_trial='<= 3 (quick) / 3-5 (thorough)',
                heuristic='symbolic admissible', margin='symbolic (0,1]', randomize_action_order=[False, True])


def _listener(L, count=None):
    from msdm.algorithms.lrtdp import LRTDPEventListener

    class Lst(LRTDPEventListener):
        def end_of_lrtdp_trial(self, lv):
            if count is not None:
                count.append(1)

        def end_of_lrtdp_timestep(self, lv):
            if len(lv['visited']) > L:
                raise core.PathCut('trial longer than the bound')
    return Lst


def _setup(sx, sh, hkind, const_rewards=False):
    if const_rewards:
        rew = {(s, a, ns): sx.const(F(-(1 + ((s + 2 * a) % 3)), 4)) for s in range(sh.S) for a in sh.avail[s] for ns in sh.rows[(s, a)]}
    else:
        rew = sym_rewards(sx, sh, -1, 0, per_next_state=False)
    absorbing = set(sh.absorb)
    Vs, Qs = bellman_optimal(sx, sh, rew, absorbing)
    if hkind == 'zero':
        h = {s: 0 for s in range(sh.S)}
    else:
        h = {s: sx.real(f"h_{s}", -20, 2) for s in range(sh.S)}
        for s in range(sh.S):
            if s not in absorbing:
                sx.assume(h[s] >= Vs[s])
    return rew, absorbing, Vs, Qs, h


def full_run(sx, shape, hkind, rao, T, L, warm=False):
    """warm=True: the SAME planner object first plans on a different problem over the same state labels (state 1 is an ordinary
    state there and absorbing in the problem under test); the statement is per plan_on call, so nothing may carry over"""
    sh = SHAPES[shape]
    if warm:
        sh_warm, sh = sh, sh.with_(absorb=sorted(set(sh.absorb) | {1}), name=sh.name + '+1-absorbing')
    Ls, AL = sh.slabels, sh.alabels
    g = sx.const(sh.gamma)
    from msdm.algorithms.lrtdp import LRTDP
    eps = sx.real('bellman_error_margin', 0, 1, lo_open=True)
    rew, absorbing, Vs, Qs, h = _setup(sx, sh, hkind, const_rewards=warm)
    with facade(sx):
        mdp = build_mdp(sx, sh, rew)
        planner = LRTDP(heuristic=lambda s: h[Ls.index(s)], bellman_error_margin=eps, iterations=T, randomize_action_order=rao,
                        event_listener_class=_listener(L, trials := []), seed=17)
        import warnings
        with warnings.catch_warnings():
            warnings.simplefilter('ignore')
            if warm:
                warm_mdp = build_mdp(sx, sh_warm, rew)
                with sx.must_not_raise('plan_on(first problem)'):
                    planner.plan_on(warm_mdp)
                trials.clear()
            with sx.must_not_raise('plan_on'):
                res = planner.plan_on(mdp)
        init = [s for s, p in sh.s0.items() if p > 0]
        done = all(bool(res.solved[Ls[s]]) for s in init)
        if not done:
            # returning with an unlabelled initial state is only legitimate when the trial budget ran out
            sx.prove(len(trials) >= T, 'terminates-only-with-all-initial-states-labelled-solved')
            sx.cut('trial budget exhausted before the initial states were solved')
        V = {s: res.V[Ls[s]] for s in range(sh.S) if Ls[s] in res.V}
        # reported values: upper bounds, absorbing states worth 0
        for s, v in V.items():
            if s in absorbing:
                sx.prove_eq(v, 0, f'absorbing-state-worth-0[{s}]', tol=0)
            else:
                sx.prove_le(Vs[s], v, f'value-never-below-optimal[{s}]', tol=F(1, 10**8))
        v_at = lambda s: 0 if s in absorbing else res.V[Ls[s]]
        sx.prove_eq(res.initial_value, ssum(sx.const(p) * v_at(s) for s, p in sh.s0.items()), 'initial-value-counts-absorbing-as-0')
        # returned greedy policy (deterministic): available actions only
        pol = {}
        for s in range(sh.S):
            if s in absorbing:
                continue
            d = dict(res.policy.action_dist(Ls[s]).items())
            sx.prove(all(AL.index(a) in sh.avail[s] for a in d), f'policy-picks-available-actions[{s}]')
            sx.prove_eq(ssum(d.values()), 1, f'policy-row-normalised[{s}]')
            pol[s] = {a: d.get(AL[a], 0) for a in sh.avail[s]}
        # expected number of steps N of the returned policy from each state (fresh linear system; finite on goal-reaching skeletons)
        c = sx.c
        N = {s: sx.fresh(f"N{s}") for s in range(sh.S)}
        for s in range(sh.S):
            if s in absorbing:
                c.add(N[s].z == 0)
            else:
                c.add(N[s].z == core.toz(1 + ssum(pol[s][a] * sx.const(p) * N[ns] for a in sh.avail[s] for ns, p in sh.rows[(s, a)].items()
                                                    if p > 0 and not (not is_sym(pol[s][a]) and pol[s][a] == 0))))
        c.model = None
        W = policy_value(sx, sh, {k: v for k, v in rew.items()}, absorbing, pol)
        for s in init:
            if s in absorbing:
                continue
            sx.prove_le(res.V[Ls[s]] - Vs[s], eps * N[s], f'initial-state-within-margin-times-steps[{s}]', tol=F(1, 10**7))
        lhs = ssum(sx.const(p) * (Vs[s] - W[s]) for s, p in sh.s0.items() if s not in absorbing)
        rhs = ssum(sx.const(p) * eps * N[s] for s, p in sh.s0.items() if s not in absorbing)
        sx.prove_le(lhs, rhs, 'policy-return-within-margin-of-optimal', tol=F(1, 10**7))
        sx.prove(not stubs.TAINT.reads, 'global-generator-not-consulted')
        sx.observe('iv', res.initial_value)


def step_invariants(sx, shape, solved_sel, target, op):
    """one _bellman_update / _check_solved from an ARBITRARY upper-bound value table and label set satisfying the
    labelling invariant keeps: values >= V*, and (check_solved) every labelled state has residual <= margin with labelled greedy successors"""
    sh = SHAPES[shape]
    Ls, AL = sh.slabels, sh.alabels
    from msdm.algorithms.lrtdp import LRTDP
    from msdm.core.utils.dictutils import defaultdict2
    eps = sx.real('bellman_error_margin', 0, 1, lo_open=True)
    rew, absorbing, Vs, Qs, h = _setup(sx, sh, 'sym')
    nonabs = [s for s in range(sh.S) if s not in absorbing]
    with facade(sx):
        mdp = build_mdp(sx, sh, rew)
        pl = LRTDP(heuristic=lambda s: h[Ls.index(s)], bellman_error_margin=eps, seed=1)
        pl._set_up_plan_on()
        pl.res.V = defaultdict2(lambda s: h[Ls.index(s)])
        V0 = {}
        for s in nonabs:
            V0[s] = sx.real(f"V_{s}", -20, 2)
            sx.assume(V0[s] >= Vs[s])
            pl.res.V[Ls[s]] = V0[s]
        pl.res.action_orders = dict()
        pl.res.solved = defaultdict2(lambda s: False)
        solved0 = set(solved_sel) | set(absorbing)
        for s in solved0:
            pl.res.solved[Ls[s]] = True

        def inv(tag, assume):
            for s in range(sh.S):
                if s in absorbing or not bool(pl.res.solved[Ls[s]]):
                    continue
                a = pl.policy(mdp, Ls[s])
                resid = pl.res.V[Ls[s]] - pl.Q(mdp, Ls[s], a)
                cond = (resid <= eps) & (-resid <= eps)
                succ_ok = all(bool(pl.res.solved[Ls[ns]]) for ns, p in sh.rows[(s, AL.index(a))].items() if p > 0)
                if assume:
                    sx.assume(cond)
                    if not succ_ok:
                        raise core.Infeasible()
                else:
                    sx.prove(cond, f'{tag}labelled-state-residual-within-margin[{s}]')
                    sx.prove(succ_ok, f'{tag}labelled-state-greedy-successors-labelled[{s}]')
        def monotone(tag, assume):
            # V >= T V (Bellman-monotone upper bound, Bonet & Geffner's standing assumption): without it the labelling
            # invariant is not inductive (a later backup can RAISE a value and flip a labelled state's greedy action)
            for s in nonabs:
                for a in sh.avail[s]:
                    c_ = pl.res.V[Ls[s]] >= pl.Q(mdp, Ls[s], AL[a])
                    if assume:
                        sx.assume(c_)
                    else:
                        sx.prove(c_ if is_sym(c_) else bool(c_), f'{tag}value-table-stays-bellman-monotone[{s},{a}]')
        monotone('', True)
        inv('', True)
        if op == 'update':
            pl._bellman_update(mdp, Ls[target])
        else:
            pl._check_solved(mdp, Ls[target])
        for s in nonabs:
            sx.prove_le(Vs[s], pl.res.V[Ls[s]], f'after-{op}-value-still-upper-bound[{s}]', tol=F(1, 10**8))
        for s in solved0:
            sx.prove(bool(pl.res.solved[Ls[s]]), f'after-{op}-labels-never-removed[{s}]')
        monotone(f'after-{op}-', False)
        inv(f'after-{op}-', False)
        for s in absorbing:
            for a in sh.avail[s]:
                sx.prove_eq(pl.Q(mdp, Ls[s], AL[a]), 0, f'absorbing-q-is-0[{s}]', tol=0)


def jobs(tier):
    quick = tier == 'quick'
    o = dict(timeout_ms=60000, budget_s=1500, max_paths=40000)
    T, L = (3, 3) if quick else (4, 5)
    for i, sh in enumerate(SHAPES):
        for hk in ['zero', 'sym']:
            for rao in [False, True]:
                if quick and i == 3 and (rao or hk == 'sym'):
                    continue
                Ti, Li = (2, 3) if ((quick and i >= 1) or i == 3) else ((3, 3) if i >= 1 else (T, L))      # (more trials / steps on the 3-4 state skeletons exceed 40000 paths per case)
                yield ('full_run', dict(shape=i, hkind=hk, rao=rao, T=Ti, L=Li), dict(o, cost=10))
        if i == 1:
            yield ('full_run', dict(shape=i, hkind='sym', rao=False, T=2, L=3, warm=True), dict(o, cost=10))
            if not quick:
                yield ('full_run', dict(shape=i, hkind='sym', rao=True, T=2, L=4, warm=True), dict(o, cost=10))
        nonabs = [s for s in range(sh.S) if s not in sh.absorb]
        import itertools
        for r in range(0, len(nonabs) + 1):
            for sel in itertools.combinations(nonabs, r):
                for tgt in nonabs:
                    if tgt in sel:
                        continue
                    yield ('step_invariants', dict(shape=i, solved_sel=list(sel), target=tgt, op='update'), o)
                    yield ('step_invariants', dict(shape=i, solved_sel=list(sel), target=tgt, op='check'), o)
