"""C18 — grid-game transitions are normalised and respect the physical constraints; factor tables multiply / mix as defined."""
from fractions import Fraction as F
import itertools

from symx import core, stubs
from symx.core import is_sym, ssum, LogVal
from symx.stubs import facade

PROPERTY = 'C18'
FUNCTIONS = [
    'msdm.domains.gridgame.tabulargridgame.TabularGridGame.{__init__,next_state_dist,is_absorbing,is_terminal,joint_rewards,same_location,joint_actions}',
    'msdm.core.distributions.discretefactortable.DiscreteFactorTable.{__init__,product,mix,__mul__,__and__,__or__,marginalize,prob,logit,items,normalize}',
    'msdm.core.utils.dictutils.{dict_match,dict_merge}', 'msdm.core.utils.gridstringutils.string_to_element_array',
]
ASSUMPTIONS = [
    'agent coordinates and both action indices are symbolic integers (concretised by forking: every in-grid placement of the two agents outside obstacles and not '
    'sharing a non-goal cell, every one of the 25 joint actions)', 'the fence success probability is symbolic in [0,1]; factor-table weights are symbolic (zero allowed)',
    'np.log / np.exp / scipy.special.softmax / logsumexp are modelled in the log domain: log(p) is a tagged value, exp(log p + t) = p*Exp(t), Exp uninterpreted positive monotone',
    'placements are a superset of the reachable states (reachability uses JSON-encoded sets and is not executed symbolically)',
]
OUTSIDE = ['layouts larger than 3x3 (quick) / 4x2 (thorough), more than two agents', 'collision probabilities other than the two the constructor accepts (None, 1/2)', 'rounding / overflow of exp']

LAYOUTS = [
    ("corridor-private-goals", "A0 G1 G0 A1"),
    ("small-open", "A0 . G\n. . A1"),
    ("obstacle-wall", "A0 # G0\n. [ A1\nG1 . ."),
    ("fence", "A0 } .\nG1 . A1\n. u G0"),
    ("shared-goal", "A0 G A1"),
    ("stacked-goals", "G1 G0\nA0 A1"),
]
THOROUGH_LAYOUTS = [
    ("wide-fences", "A0 { . G1\nG0 ~ # A1"),
    ("tall-mixed", "A0 G1\n] .\nu #\nG0 A1"),
]
LAYOUTS = LAYOUTS + THOROUGH_LAYOUTS


def bounds(tier):
    return dict(layouts=[n for n, _ in LAYOUTS[:len(LAYOUTS) - (len(THOROUGH_LAYOUTS) if tier == 'quick' else 0)]], placements='all pairs of in-grid cells outside obstacles (two agents)', joint_actions=25,
                fence_success_prob='symbolic [0,1]', factor_tables='pairs of tables with 1-3 rows over nested-dict events: shared / disjoint / partially overlapping variables')


MOVES = [(0, 0), (1, 0), (-1, 0), (0, 1), (0, -1)]


def transitions(sx, layout, warm=None, collision_half=False):
    """warm: ANOTHER game (different obstacles / walls / fences, same size) is built first and asked about the same placement and
    joint action; each game object answers for its own board"""
    from msdm.domains.gridgame.tabulargridgame import TabularGridGame, TERMINALSTATE
    name, gs = LAYOUTS[layout]
    has_fence = any(ch in gs for ch in '{}~u')
    fsp = sx.real('fence_success_prob', 0, 1) if has_fence else sx.const(F(1, 2))
    if not has_fence:
        sx.real('unused', 0, 1)
    with facade(sx):
        # collision_half: the only other accepted collision setting (colliding agents: one of the non-colliding outcomes, not 'nobody moves')
        gg = TabularGridGame(gs, fence_success_prob=fsp, **({'collision_prob': .5} if collision_half else {}))
        W, Hh = gg.width, gg.height
        x0, y0 = sx.integer('x0', 0, W - 1), sx.integer('y0', 0, Hh - 1)
        x1, y1 = sx.integer('x1', 0, W - 1), sx.integer('y1', 0, Hh - 1)
        a0, a1 = sx.integer('a0', 0, 4), sx.integer('a1', 0, 4)
        p0, p1 = (int(x0), int(y0)), (int(x1), int(y1))
        m0, m1 = MOVES[int(a0)], MOVES[int(a1)]
        obstacles = {(o['x'], o['y']) for o in gg.obstacles}
        goals = {(g['x'], g['y']): g['owners'] for g in gg.goals}
        if p0 in obstacles or p1 in obstacles:
            raise core.Infeasible()
        if p0 == p1 and p0 not in goals:
            raise core.Infeasible()
        s = {'A0': {'type': 'agent', 'name': 'A0', 'x': p0[0], 'y': p0[1]}, 'A1': {'type': 'agent', 'name': 'A1', 'x': p1[0], 'y': p1[1]}}
        ja = {'A0': {'x': m0[0], 'y': m0[1]}, 'A1': {'x': m1[0], 'y': m1[1]}}
        if warm is not None:
            other = TabularGridGame(LAYOUTS[warm][1], fence_success_prob=sx.const(F(1, 4)))
            try:
                list(other.next_state_dist(s, ja).items())
            except Exception:  # noqa: BLE001  (the placement may be illegal on the other board: irrelevant here)
                pass
        with sx.must_not_raise('next_state_dist'):
            d = gg.next_state_dist(s, ja)
            sup = list(d.support)
            probs = [d.prob(ns) for ns in sup]
        own_goal = any(p in goals and an in goals[p] for an, p in (('A0', p0), ('A1', p1)))
        sx.prove_eq(ssum(probs), 1, 'next-state-distribution-sums-to-1', tol=F(1, 10**7))
        if own_goal:
            for ns, p in zip(sup, probs):
                pos = p > 0
                if bool(pos):
                    sx.prove(ns == TERMINALSTATE, 'own-goal-state-leads-to-the-terminal-state')
            return
        walls = {((w['start']['x'], w['start']['y']), (w['end']['x'], w['end']['y'])) for w in gg.walls}
        for ns, p in zip(sup, probs):
            if not bool(p > F(1, 10**9)):
                continue
            n0, n1 = (ns['A0']['x'], ns['A0']['y']), (ns['A1']['x'], ns['A1']['y'])
            sx.prove(not (n0 == n1 and n0 not in goals), 'no-two-agents-share-a-non-goal-cell')
            sx.prove(not (n0 == p1 and n1 == p0 and p0 != p1), 'agents-never-swap-cells')
            for an, old, new in (('A0', p0, n0), ('A1', p1, n1)):
                sx.prove(new not in obstacles, f'{an}-never-inside-an-obstacle')
                sx.prove(0 <= new[0] < W and 0 <= new[1] < Hh, f'{an}-stays-on-the-grid')
                sx.prove(abs(new[0] - old[0]) + abs(new[1] - old[1]) <= 1, f'{an}-moves-at-most-one-cell')
                sx.prove((old, new) not in walls, f'{an}-never-crosses-a-wall-in-its-blocked-direction')
        # the terminal state is absorbing and pays nothing
        dt = gg.next_state_dist(TERMINALSTATE, ja)
        sx.prove(list(dt.support) == [TERMINALSTATE], 'terminal-state-is-absorbing')
        jr = gg.joint_rewards(TERMINALSTATE, ja, TERMINALSTATE)
        sx.prove(all(v == 0 for v in jr.values()), 'terminal-state-pays-nothing')
        sx.observe('total', ssum(probs))


# ---------------------------------------------------------------------------------------------
TABLES = [
    # (rows of p, rows of q): events are nested dicts
    ('independent', [{'a': {'x': 0}}, {'a': {'x': 1}}], [{'b': {'x': 0}}, {'b': {'x': 1}}, {'b': {'x': 2}}]),
    ('shared-variable', [{'a': {'x': 0}, 'c': 1}, {'a': {'x': 1}, 'c': 1}, {'a': {'x': 1}, 'c': 2}], [{'a': {'x': 1}, 'd': 0}, {'a': {'x': 0}, 'd': 0}, {'a': {'x': 2}, 'd': 5}]),
    ('partially-overlapping-nested', [{'ag': {'x': 0}}, {'ag': {'x': 1}}], [{'ag': {'y': 0}}, {'ag': {'y': 1}}]),
    ('same-header', [{'a': 0, 'b': 0}, {'a': 0, 'b': 1}, {'a': 1, 'b': 1}], [{'a': 0, 'b': 1}, {'a': 1, 'b': 1}, {'a': 1, 'b': 0}]),
    ('single-rows', [{'a': 0}], [{'b': 1}]),
]


def _match(r, s_):
    from copy import deepcopy

    def rec(a, b):
        for k in b:
            if k in a:
                if isinstance(a[k], dict) and isinstance(b[k], dict):
                    if not rec(a[k], b[k]):
                        return False
                elif a[k] != b[k]:
                    return False
        return True
    return rec(r, s_)


def _merge(r, s_):
    out = {}
    for k in list(r) + [k for k in s_ if k not in r]:
        if k in r and k in s_ and isinstance(r[k], dict) and isinstance(s_[k], dict):
            out[k] = _merge(r[k], s_[k])
        elif k in s_:
            out[k] = s_[k] if not isinstance(s_[k], dict) else _merge({}, s_[k])
        else:
            out[k] = r[k] if not isinstance(r[k], dict) else _merge({}, r[k])
    return out


def factor_product(sx, tsel):
    """p & q is the normalised natural join of the rows with multiplied weights; the operands are left untouched"""
    from msdm.core.distributions import DiscreteFactorTable as Pr
    import copy
    name, R, S_ = TABLES[tsel]
    wp = [sx.real(f"p{i}", 0, 2) for i in range(len(R))]
    wq = [sx.real(f"q{i}", 0, 2) for i in range(len(S_))]
    sx.assume(ssum(wp) > 0)
    sx.assume(ssum(wq) > 0)
    with facade(sx):
        P = Pr(copy.deepcopy(R), probs=list(wp))
        Q = Pr(copy.deepcopy(S_), probs=list(wq))
        with sx.must_not_raise('product'):
            J = P & Q
        # independent oracle: natural join with multiplied weights, normalised
        want = []
        for i, r in enumerate(R):
            for j, s_ in enumerate(S_):
                if _match(r, s_):
                    want.append((_merge(r, s_), wp[i] * wq[j]))
        tot = ssum(w for _, w in want)
        sx.prove(list(P.support) == R and list(Q.support) == S_, 'operands-are-not-modified')
        if bool(tot > 0):
            got = {repr(sorted_dict(e)): J.prob(e) for e in J.support}
            for e, w in want:
                sx.prove_eq(got.get(repr(sorted_dict(e)), 0) * tot, w, f'join-row-weight', tol=F(1, 10**7))
            sx.prove_eq(ssum(got.values()), 1, 'join-normalised', tol=F(1, 10**7))
            for k, gp in got.items():
                if k not in {repr(sorted_dict(e)) for e, _ in want}:
                    sx.prove_eq(gp, 0, 'no-row-outside-the-natural-join', tol=F(1, 10**9))
        sx.observe('n', len(J.support))


def sorted_dict(d):
    if isinstance(d, dict):
        return sorted((k, sorted_dict(v)) for k, v in d.items())
    return d


def factor_mix(sx, tsel, scaled=False):
    """a*p | b*q over the same variables adds the weights row by row (and renormalises: the scales a, b need not be convex weights)"""
    from msdm.core.distributions import DiscreteFactorTable as Pr
    import copy
    name, R, S_ = TABLES[tsel]
    wp = [sx.real(f"p{i}", 0, 2) for i in range(len(R))]
    wq = [sx.real(f"q{i}", 0, 2) for i in range(len(S_))]
    if scaled:
        a, b = sx.real('scale_a', 0, 3, lo_open=True), sx.real('scale_b', 0, 3, lo_open=True)
    else:
        a, b = sx.const(F(1, 4)), sx.const(F(3, 4))
    for w in wp + wq:
        sx.assume(w > 0)
    sx.assume(ssum(wp) == 1)
    sx.assume(ssum(wq) == 1)
    with facade(sx):
        P = Pr(copy.deepcopy(R), probs=list(wp))
        Q = Pr(copy.deepcopy(S_), probs=list(wq))
        with sx.must_not_raise('mix'):
            M = (P * a) | (Q * b)
        rows = {}
        for r, w in zip(R, wp):
            rows[repr(sorted_dict(r))] = rows.get(repr(sorted_dict(r)), 0) + a * w
        for s_, w in zip(S_, wq):
            rows[repr(sorted_dict(s_))] = rows.get(repr(sorted_dict(s_)), 0) + b * w
        tot = ssum(rows.values())
        got = {repr(sorted_dict(e)): M.prob(e) for e in M.support}
        for k, w in rows.items():
            sx.prove_eq(got.get(k, 0) * tot, w, 'mixture-adds-weights-row-by-row', tol=F(1, 10**7))
        sx.prove_eq(ssum(got.values()), 1, 'mixture-normalised', tol=F(1, 10**7))


def jobs(tier):
    o = dict(timeout_ms=15000, budget_s=(300 if tier == 'quick' else 1500), max_paths=40000)
    for i in range(len(LAYOUTS) - (len(THOROUGH_LAYOUTS) if tier == 'quick' else 0)):
        yield ('transitions', dict(layout=i), dict(o, cost=20, twin=3))
    for i in (1, 2, 4):
        yield ('transitions', dict(layout=i, collision_half=True), dict(o, cost=20, twin=3))
    yield ('transitions', dict(layout=2, warm=3), dict(o, cost=20, twin=3))
    yield ('transitions', dict(layout=3, warm=2), dict(o, cost=20, twin=3))
    for t in range(len(TABLES)):
        yield ('factor_product', dict(tsel=t), o)
    yield ('factor_mix', dict(tsel=3), o)
    yield ('factor_mix', dict(tsel=3, scaled=True), o)
