"""C08 — PBVI never over-estimates and QMDP never under-estimates the optimal POMDP value."""
from fractions import Fraction as F
import itertools

from symx import core, stubs
from symx.core import is_sym, ssum
from symx.stubs import facade, fork_isclose, shadow
from harness.common import PShape, pomdp_shapes, build_pomdp, bellman_optimal

PROPERTY = 'C08'
FUNCTIONS = [
    'msdm.algorithms.pointbasedvalueiteration.{point_based_value_iteration,expand_beliefs,next_beliefs,belief_values}',
    'msdm.algorithms.pointbasedvalueiteration.PointBasedValueIteration.{plan_on,_solve}',
    'msdm.core.pomdp.alphavectorpolicy.AlphaVectorPolicy.{value,action_value,_belief_to_vector}',
    'msdm.algorithms.qmdp.{QMDP.plan_on,QMDPPolicy.value,QMDPPolicy.action_value}', 'msdm.core.pomdp.policy.ValueBasedTabularPOMDPPolicy.action_dist',
    'msdm.algorithms.policyiteration.PolicyIteration.plan_on (through QMDP)',
]
ASSUMPTIONS = [
    'rewards are symbolic in [-1,1]; transition / observation kernels, beliefs and the discount are rational menus (so belief expansion, np.unique and cdist '
    'run on concrete data)', 'the optimal k-horizon POMDP value V_k*(b) is an expectimax over concrete successor beliefs written as a z3 term (max = If) - the '
    'independent oracle; V* is bracketed by V_k* -/+ g^k Rmax/(1-g)', 'argmax on symbolic values forks (the result indexes arrays)',
]
OUTSIDE = ['more than 3 states / 2 actions / 3 observations, horizons above 3 (2 in quick), more than 2 belief expansions', 'the automatic horizon (log of symbolic quantities)', 'rounding']

H, Q1, Q3 = F(1, 2), F(1, 4), F(3, 4)


def pshapes():
    out = list(pomdp_shapes())
    out.append(PShape(2, 2, [[0, 1], [0, 1]], {(0, 0): {0: H, 1: H}, (0, 1): {1: 1}, (1, 0): {0: 1}, (1, 1): {1: Q1, 0: Q3}},
                      absorb=[1], s0={0: Q3, 1: Q1}, gamma=F(1, 2), name='absorbing-leaves',
                      obs={(0, 0): {0: Q3, 1: Q1}, (0, 1): {0: Q1, 1: Q3}, (1, 0): {0: 1, 1: 0}, (1, 1): {0: H, 1: H}}, olabels=['oa', 'ob']))
    return out


PSH = pshapes()


def bounds(tier):
    return dict(pomdps=[s.name for s in PSH], horizons='1..2 (quick) / 1..3 (thorough)', belief_sets='initial belief, vertices, midpoints / two expansions',
                rewards='symbolic per (state, action) in [-1,1]')


def _sa_rewards(sx, sh):
    r = {(s, a): sx.real(f"r_{s}_{a}", -1, 1) for s in range(sh.S) for a in sh.avail[s]}
    return r, {(s, a, ns): r[(s, a)] for s in range(sh.S) for a in sh.avail[s] for ns in sh.rows[(s, a)]}


def _succ(sh, b, a, o):
    """(P(o | b, a), posterior belief) with absorbing states transitioning nowhere (the planner's model)"""
    u = [sum(b[s] * sh.rows[(s, a)].get(ns, 0) * sh.obs[(a, ns)].get(o, 0) for s in range(sh.S) if s not in sh.absorb) for ns in range(sh.S)]
    tot = sum(u)
    return tot, ([x / tot for x in u] if tot > 0 else None)


def vk_star(sx, sh, r, b, k, memo):
    """optimal k-horizon value at the concrete belief b (episode ends at absorbing states), as a term over the symbolic rewards"""
    if k == 0:
        return 0
    key = (tuple(b), k)
    if key in memo:
        return memo[key]
    g = sx.const(sh.gamma)
    best = None
    for a in range(sh.A):
        q = ssum(sx.const(b[s]) * r[(s, a)] for s in range(sh.S) if s not in sh.absorb and b[s] != 0)
        for o in range(len(sh.olabels)):
            po, nb = _succ(sh, b, a, o)
            if po > 0:
                q = q + g * sx.const(po) * vk_star(sx, sh, r, nb, k - 1, memo)
        best = q if best is None else core.smax2(best, q)
    memo[key] = best
    return best


def belief_menu(sh, sel):
    S = sh.S
    verts = [[F(int(i == j)) for j in range(S)] for i in range(S)]
    b0 = [sh.s0.get(s, F(0)) for s in range(S)]
    mid = [F(1, S)] * S
    sets = [[b0], [b0] + verts, [b0, mid] + verts[:2], verts]
    return sets[sel]


def _arr(sx, x):
    import numpy as rnp
    if sx.sym:
        from symx.symnp import SymArray
        return SymArray(rnp.array(x, dtype=object))
    return rnp.array(x, dtype=float)


def kernel(sx, shape, bsel, h, eps_sym=False):
    """point_based_value_iteration on a given belief set: alpha vectors never over-estimate the k-horizon optimum, are exact where the
    belief set is closed under successors, vanish on absorbing states, and (on an early exit) are consistent with the reported backup"""
    sh = PSH[shape]
    L, AL, OL = sh.slabels, sh.alabels, sh.olabels
    g = sx.const(sh.gamma)
    r, rew = _sa_rewards(sx, sh)
    eps = sx.real('value_convergence_epsilon', 0, 2, lo_open=True) if eps_sym else 0
    B = belief_menu(sh, bsel)
    from msdm.algorithms.pointbasedvalueiteration import point_based_value_iteration
    import numpy as rnp
    with facade(sx):
        pomdp = build_pomdp(sx, sh, rew)
        sl, al, ol = list(pomdp.state_list), list(pomdp.action_list), list(pomdp.observation_list)
        bb = rnp.array([[float(b[L.index(s_)]) for s_ in sl] for b in B]) if not sx.sym else _arr(sx, [[b[L.index(s_)] for s_ in sl] for b in B])
        with sx.must_not_raise('pbvi'):
            res = point_based_value_iteration(pomdp, bb, value_convergence_epsilon=eps, horizon=h)
        alphas = rnp.asarray(res['alpha_vectors'])
        it = res['iterations']
        memo = {}
        # number of backups the returned vectors went through: `it` on an early exit, h otherwise
        ks = [h] if not eps_sym else sorted({it, min(it + 1, h)})
        for bi, b in enumerate(B):
            v = None
            for d in range(alphas.shape[0]):
                x = ssum(alphas[d, sl.index(L[s])] * sx.const(b[s]) for s in range(sh.S) if b[s] != 0)
                v = x if v is None else core.smax2(v, x)
            cands = [vk_star(sx, sh, r, b, k, memo) for k in ks]
            ok = core.sany([v <= c_ + F(1, 10**7) for c_ in cands])
            sx.prove(ok, f'alpha-vectors-never-exceed-k-horizon-optimum[belief {bi}]')
            closed = all(nb is None or nb in B for a in range(sh.A) for o in range(len(OL)) for po, nb in [_succ(sh, b, a, o)])
            if not eps_sym and all(all(nb is None or nb in B for a in range(sh.A) for o in range(len(OL)) for po, nb in [_succ(sh, bb_, a, o)]) for bb_ in B):
                sx.prove_eq(v, cands[0], f'exact-on-a-successor-closed-belief-set[belief {bi}]', tol=F(1, 10**7))
        for d in range(alphas.shape[0]):
            for s in sh.absorb:
                sx.prove_eq(alphas[d, sl.index(L[s])], 0, f'alpha-zero-on-absorbing-state[{s}]', tol=0)
        # reported per-action backup is the point-based backup of the reported vectors (early exit) -- differential, independent code
        bsa = rnp.asarray(res['belief_action_alpha_vectors'])
        if eps_sym and it < h - 1:      # the loop certainly left early: the reported vectors are the ones the reported backup was computed from
            for bi, b in enumerate(B):
                for a in range(sh.A):
                    ai = al.index(AL[a])
                    # best vector for every observation at the successor belief (ties: any maximiser gives the same value at that belief)
                    fut = {s: 0 for s in range(sh.S)}
                    for o in range(len(OL)):
                        po, nb = _succ(sh, b, a, o)
                        if OL[o] not in ol:
                            continue
                        # value of each vector at the unnormalised successor belief
                        scores = []
                        for d in range(alphas.shape[0]):
                            sc = ssum(sx.const(b[s]) * sx.const(sh.rows[(s, a)].get(ns, 0)) * sx.const(sh.obs[(a, ns)].get(o, 0)) * alphas[d, sl.index(L[ns])]
                                      for s in range(sh.S) if s not in sh.absorb for ns in range(sh.S) if sh.rows[(s, a)].get(ns, 0) != 0 and b[s] != 0)
                            scores.append(sc)
                        best = 0
                        for d in range(1, len(scores)):
                            if bool(scores[d] > scores[best]):
                                best = d
                        for s in range(sh.S):
                            if s in sh.absorb:
                                continue
                            fut[s] = fut[s] + ssum(sx.const(sh.rows[(s, a)].get(ns, 0)) * sx.const(sh.obs[(a, ns)].get(o, 0)) * alphas[best, sl.index(L[ns])]
                                                   for ns in range(sh.S) if sh.rows[(s, a)].get(ns, 0) != 0)
                    for s in range(sh.S):
                        want = 0 if s in sh.absorb else r[(s, a)] + g * fut[s]
                        sx.prove_eq(bsa[bi, sl.index(L[s]), ai], want, f'reported-backup-is-the-point-based-backup[belief {bi}]', tol=F(1, 10**7))
        sx.observe('alpha', alphas)


def _belief(sx, sl, L, b, permuted):
    """a Belief object for b; permuted: its states listed in another order (rotated) than the model's state list"""
    from msdm.core.pomdp.tabularpomdp import Belief
    order = (sl[1:] + sl[:1]) if permuted else sl
    return Belief(tuple(order), tuple(sx.const(b[L.index(s_)]) for s_ in order))


def plan(sx, shape, h, nexp, permuted=False):
    """PointBasedValueIteration.plan_on end to end + the alpha-vector policy"""
    sh = PSH[shape]
    L, AL, OL = sh.slabels, sh.alabels, sh.olabels
    r, rew = _sa_rewards(sx, sh)
    from msdm.algorithms.pointbasedvalueiteration import PointBasedValueIteration
    from msdm.core.pomdp.tabularpomdp import Belief
    import numpy as rnp
    with facade(sx):
        pomdp = build_pomdp(sx, sh, rew)
        sl, al = list(pomdp.state_list), list(pomdp.action_list)
        with sx.must_not_raise('plan_on'):
            res = PointBasedValueIteration(min_belief_expansions=nexp, max_belief_expansions=nexp + 1, value_convergence_epsilon=sx.const(F(1, 100)),
                                           horizon=h).plan_on(pomdp)
        memo = {}
        tests = [belief_menu(sh, 0)[0], belief_menu(sh, 2)[1]] if sx.tier == 'quick' else belief_menu(sh, 1) + belief_menu(sh, 2)[1:2]
        for bi, b in enumerate(tests):
            bel = _belief(sx, sl, L, b, permuted)
            v = res.policy.value(bel)
            # linearise: which alpha vector attains the maximum at this belief is decided by forking
            al_ = rnp.asarray(res.alpha_vectors)
            vals = [ssum(al_[d_, sl.index(L[s])] * sx.const(b[s]) for s in range(sh.S) if b[s] != 0) for d_ in range(al_.shape[0])]
            best = 0
            for d_ in range(1, len(vals)):
                if bool(vals[d_] > vals[best]):
                    best = d_
            sx.prove_eq(v, vals[best], f'policy-value-is-the-best-alpha-vector[belief {bi}]')
            cands = [vk_star(sx, sh, r, b, k, memo) for k in range(0, h + 1)]
            sx.prove(core.sany([vals[best] <= c_ + F(1, 10**7) for c_ in cands]), f'pbvi-value-never-exceeds-a-finite-horizon-optimum[belief {bi}]')
            # action distribution: uniform over exactly the maximisers of the policy's own action values
            av = {a: res.policy.action_value(bel, AL[a]) for a in range(sh.A)}
            m = None
            for a in av:
                m = av[a] if m is None else core.smax2(m, av[a])
            G = [a for a in av if bool(av[a] == m)]
            d = dict(res.policy.action_dist(bel).items())
            sx.prove(set(d) == {AL[a] for a in G}, f'action-dist-support-is-the-maximisers[belief {bi}]')
            for a in G:
                sx.prove_eq(d.get(AL[a], 0), F(1, len(G)), f'action-dist-uniform[belief {bi}]')
        alphas = rnp.asarray(res.alpha_vectors)
        for dd in range(alphas.shape[0]):
            for s in sh.absorb:
                sx.prove_eq(alphas[dd, sl.index(L[s])], 0, 'alpha-zero-on-absorbing-state', tol=0)
        sx.observe('n_beliefs', len(res.belief_set))


def qmdp(sx, shape, h, permuted=False):
    """QMDP action values are the belief-weighted optimal MDP action values; its value never under-estimates the optimum"""
    sh = PSH[shape]
    L, AL, OL = sh.slabels, sh.alabels, sh.olabels
    g = sh.gamma
    r, rew = _sa_rewards(sx, sh)
    from msdm.algorithms.qmdp import QMDP
    from msdm.core.pomdp.tabularpomdp import Belief
    with facade(sx), fork_isclose(merge=True):
        pomdp = build_pomdp(sx, sh, rew)
        sl = list(pomdp.state_list)
        with sx.must_not_raise('qmdp-plan'):
            from msdm.algorithms.policyiteration import PolicyIteration
            res = QMDP(mdp_solver=PolicyIteration(max_iterations=(sh.A ** sh.S) + 2)).plan_on(pomdp)
        if not res.mdp_res.converged:
            sx.cut('policy iteration round cap')
        absorbing = set(sh.absorb)
        Vs, Qs = bellman_optimal(sx, sh, rew, absorbing)
        iso = F(1, 10**8) + F(1, 10**5) * (1 / (1 - g))
        tol = 2 * iso / (1 - g)
        memo = {}
        for bi, b in enumerate(belief_menu(sh, 1) + belief_menu(sh, 2)[1:2]):
            bel = _belief(sx, sl, L, b, permuted)
            for a in range(sh.A):
                want = ssum(sx.const(b[s]) * (Qs[(s, a)] if s not in absorbing else res.mdp_res.action_value[L[s], AL[a]]) for s in range(sh.S) if b[s] != 0)
                sx.prove_eq(res.policy.action_value(bel, AL[a]), want, f'qmdp-action-value-is-belief-weighted-mdp-optimum[belief {bi},{a}]', tol=tol)
            v = res.policy.value(bel)
            if not any(b[s] != 0 for s in absorbing):
                lb = vk_star(sx, sh, r, b, h, memo) - sx.const((g ** h) / (1 - g))
                sx.prove_le(lb, v, f'qmdp-never-under-estimates[belief {bi}]', tol=tol)
            av = {a: res.policy.action_value(bel, AL[a]) for a in range(sh.A)}
            m = None
            for a in av:
                m = av[a] if m is None else core.smax2(m, av[a])
            # the QMDP value of a belief is the best of its own action values there (max of expectations, not expectation of maxima)
            sx.prove_eq(v, m, f'qmdp-value-is-its-best-action-value[belief {bi}]')
            G = [a for a in av if bool(av[a] == m)]
            d = dict(res.policy.action_dist(bel).items())
            sx.prove(set(d) == {AL[a] for a in G}, f'qmdp-action-dist-support-is-the-maximisers[belief {bi}]')


def reuse_planner(sx, first, second, order):
    """one PBVI planner object (automatic horizon) used on two POMDPs in a row: for EVERY belief (symbolic point of the simplex) the PBVI value of the
    second plan does not exceed the QMDP value by more than the slack implied by its threshold"""
    from msdm.algorithms.pointbasedvalueiteration import PointBasedValueIteration
    from msdm.algorithms.qmdp import QMDP
    from msdm.algorithms.policyiteration import PolicyIteration
    from msdm.core.pomdp.tabularpomdp import Belief
    from harness.common import simplex
    shA = PSH[first].with_(gamma=F(1, 2))
    shB = PSH[second].with_(gamma=F(19, 20))
    if order == 1:
        shA, shB = shB.with_(gamma=F(1, 2)), shA.with_(gamma=F(19, 20))
    eps = 0.1
    menu = [-1.0, -0.25, -0.5, -0.75, -0.125, -1.0, -0.375, -0.625]

    def mk(sh):
        rew, k = {}, 0
        for s in range(sh.S):
            for a in sh.avail[s]:
                for ns in sh.rows[(s, a)]:
                    rew[(s, a, ns)] = menu[(2 * s + a) % len(menu)]
        return build_pomdp(_FloatConst(sx), sh, rew)
    b = simplex(sx, [f"b{s}" for s in range(shB.S)])
    with facade(sx):
        planner = PointBasedValueIteration(min_belief_expansions=0, max_belief_expansions=1, value_convergence_epsilon=eps, horizon=None)
        pA, pB = mk(shA), mk(shB)
        with sx.must_not_raise('plan-twice'):
            planner.plan_on(pA)
            resB = planner.plan_on(pB)
            q = QMDP(mdp_solver=PolicyIteration(max_iterations=50)).plan_on(pB)
        sl = list(pB.state_list)
        L = shB.slabels
        bel = Belief(tuple(sl), tuple(b[L.index(s_)] for s_ in sl))
        vp = resB.policy.value(bel)
        vq = q.policy.value(bel)
        slack = eps / (1 - float(shB.gamma)) + 1e-6
        sx.prove_le(vp, vq + slack, 'second-plan-pbvi-value-within-slack-of-qmdp-for-every-belief')


class _FloatConst:
    """build_pomdp with float constants in both modes (this harness keeps everything but the belief concrete)"""
    def __init__(self, sx):
        self.mode = sx.mode

    def const(self, x):
        return float(x)


def jobs(tier):
    quick = tier == 'quick'
    o = dict(timeout_ms=60000, budget_s=1500, max_paths=20000)
    for i, sh in enumerate(PSH):
        for bsel in range(4):
            for h in ([1, 2] if quick else [1, 2, 3]):
                if quick and sh.S == 3 and h == 2 and bsel in (1, 2):
                    continue
                yield ('kernel', dict(shape=i, bsel=bsel, h=h), dict(o, cost=h * sh.S))
                yield ('kernel', dict(shape=i, bsel=bsel, h=h, eps_sym=True), dict(o, cost=h * sh.S))
            if quick and sh.S == 2 and bsel in (0, 1):
                yield ('kernel', dict(shape=i, bsel=bsel, h=3, eps_sym=True), dict(o, cost=10))
        for h, nexp in ([(1, 0), (2, 0), (1, 1)] if quick else [(1, 0), (2, 0), (1, 1), (2, 1), (3, 0)]):
            if quick and sh.S == 3 and (h, nexp) != (1, 0):
                continue
            if (h, nexp) == (2, 1) and i in (0, 1):
                continue      # (more than 20000 paths / 1500 s per case on these two skeletons)
            yield ('plan', dict(shape=i, h=h, nexp=nexp), dict(o, cost=20))
        yield ('qmdp', dict(shape=i, h=2), dict(o, cost=10))
        if sh.S >= 2:
            yield ('qmdp', dict(shape=i, h=2, permuted=True), dict(o, cost=10))
            yield ('plan', dict(shape=i, h=1, nexp=1, permuted=True), dict(o, cost=20))
    for first, second in [(0, 0), (2, 2), (3, 3)]:
        for order in (0, 1):
            yield ('reuse_planner', dict(first=first, second=second, order=order), o)
