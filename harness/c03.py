"""C03 — LAO* with an admissible heuristic returns an optimal closed policy."""
from fractions import Fraction as F

from symx import core, stubs
from symx.core import is_sym, ssum
from symx.stubs import facade
from harness.common import Shape, build_mdp, bellman_optimal, policy_value

PROPERTY = 'C03'
FUNCTIONS = [
    'msdm.algorithms.laostar.LAOStar.{plan_on,_run_lao_star,_create_policy}',
    'msdm.algorithms.laostar.ExplicitStateGraph.{__init__,expand_at,revise_value_from,update_ancestors_of,dynamic_programming,_policy_iteration,'
    '_state_nodes_to_matrices,_initialize_node,solution_graph,initial_value,state_value_map}',
    'msdm.algorithms.laostar.SolutionGraph.{__init__,is_solved,best_breadth_first_tip_state}',
]
ASSUMPTIONS = [
    'the heuristic is symbolic, constrained only by admissibility h(s) >= V*(s) (V* = fresh unknowns pinned by the Bellman optimality equations) '
    'and h <= V* + 3; ordering keys drawn by rng.random() are symbolic (pairwise distinct), i.e. every ordering any seed can produce',
    'rewards come from rational menus (with symbolic rewards AND heuristic every value comparison forks: > 3000 paths for 4 states)',
    'numpy facade: np.around(x, 10) is the identity on symbolic values (perturbation <= 5e-11); np.linalg.solve of a concrete matrix with a symbolic '
    'right-hand side is exact rational elimination', 'warnings are no-ops',
]
OUTSIDE = ['more than 6 states', 'symbolic rewards in the full run', 'termination beyond S+3 expansions is an assertion, not a cut', 'rounding']

H, Q1, Q3 = F(1, 2), F(1, 4), F(3, 4)


def shapes():
    out = []
    # (shape, reward menu list) ; rewards per (s,a)
    out.append((Shape(2, 2, [[0, 1], [0]], {(0, 0): {0: H, 1: H}, (0, 1): {1: 1}, (1, 0): {1: 1}}, absorb=[1], gamma=F(1), s0={0: Q1, 1: Q3},
                      name='two-absorbing-start'),
                [{(0, 0): F(-1, 4), (0, 1): F(-1), (1, 0): F(-2)}, {(0, 0): F(-1), (0, 1): F(-1, 2), (1, 0): F(0)}]))
    out.append((Shape(3, 2, [[0, 1], [0, 1], [0]], {(0, 0): {1: 1}, (0, 1): {0: Q1, 2: Q3}, (1, 0): {2: 1}, (1, 1): {0: H, 2: H}, (2, 0): {2: 1}},
                      absorb=[2], gamma=F(1), s0={0: Q1, 1: Q3}, name='three-two-starts'),
                [{(0, 0): F(-1, 4), (0, 1): F(-1), (1, 0): F(-1), (1, 1): F(-1, 4), (2, 0): F(0)},
                 {(0, 0): F(-1), (0, 1): F(-1, 2), (1, 0): F(-1, 8), (1, 1): F(-1), (2, 0): F(0)}]))
    out.append((Shape(3, 2, [[0, 1], [0, 1], [0]], {(0, 0): {1: 1}, (0, 1): {0: Q1, 2: Q3}, (1, 0): {2: 1}, (1, 1): {0: H, 2: H}, (2, 0): {2: 1}},
                      absorb=[2], gamma=F(9, 10), s0={0: 1}, name='three-discounted'),
                [{(0, 0): F(1, 2), (0, 1): F(-1), (1, 0): F(-1), (1, 1): F(1, 4), (2, 0): F(0)},
                 {(0, 0): F(-1), (0, 1): F(1, 2), (1, 0): F(-1, 8), (1, 1): F(-1), (2, 0): F(1)}]))
    out.append((Shape(4, 2, [[0, 1], [0], [0, 1], [0]], {(0, 0): {1: H, 2: H}, (0, 1): {3: Q1, 0: Q3}, (1, 0): {3: 1}, (2, 0): {3: H, 2: H}, (2, 1): {1: 1}, (3, 0): {3: 1}},
                      absorb=[3], gamma=F(1), s0={0: H, 3: H}, name='four-branching'),
                [{(0, 0): F(-1, 3), (0, 1): F(-1, 2), (1, 0): F(-1), (2, 0): F(0), (2, 1): F(0), (3, 0): F(0)},
                 {(0, 0): F(-1), (0, 1): F(-1, 4), (1, 0): F(-1, 4), (2, 0): F(-1), (2, 1): F(-1, 2), (3, 0): F(-5)}]))
    # costly chain S->A->B->C->G (20 per step) with a 'safe' action only at S: true values far below log(machine epsilon) = -36.04
    out.append((Shape(5, 2, [[0, 1], [0], [0], [0], [0]], {(0, 0): {1: 1}, (0, 1): {4: 1}, (1, 0): {2: 1}, (2, 0): {3: 1}, (3, 0): {4: 1}, (4, 0): {4: 1}},
                      absorb=[4], gamma=F(1), s0={0: 1}, name='costly-chain'),
                [{(0, 0): F(-20), (0, 1): F(-75), (1, 0): F(-20), (2, 0): F(-20), (3, 0): F(-20), (4, 0): F(0)},
                 {(0, 0): F(-20), (0, 1): F(-85), (1, 0): F(-20), (2, 0): F(-20), (3, 0): F(-20), (4, 0): F(0)}]))
    return out


SHAPES = shapes()


def bounds(tier):
    return dict(skeletons=[s.name for s, _ in SHAPES], reward_menus=2, heuristic='symbolic admissible (h in [V*, V*+3])',
                randomize_action_order=[False, True], randomize_nextstate_order=[False, True], max_lao_star_iterations='S+3')


def full_run(sx, shape, rsel, rao, rno, hkind='sym', warm=False):
    """warm=True: the same LAOStar object first plans on a different problem over the same labels (other reward menu, state 1
    absorbing there); the statement is per plan_on call"""
    sh, menus = SHAPES[shape]
    Ls, AL = sh.slabels, sh.alabels
    from msdm.algorithms.laostar import LAOStar
    rm = menus[rsel]
    rew = {(s, a, ns): sx.const(rm[(s, a)]) for s in range(sh.S) for a in sh.avail[s] for ns in sh.rows[(s, a)]}
    absorbing = set(sh.absorb)
    Vs, Qs = bellman_optimal(sx, sh, rew, absorbing)
    if hkind == 'sym':
        h = {}
        for s in range(sh.S):
            h[s] = sx.real(f"h_{s}", -200, 200)
            sx.assume(h[s] >= (0 if s in absorbing else Vs[s]))
            sx.assume(h[s] <= (0 if s in absorbing else Vs[s]) + 3)
    else:
        h = {s: 0 for s in range(sh.S)}
    import warnings
    with facade(sx):
        mdp = build_mdp(sx, sh, rew)
        planner = LAOStar(heuristic=lambda s: h[Ls.index(s)], max_lao_star_iterations=sh.S + 3, dynamic_programming_iterations=(sh.A ** sh.S) + 2,
                          randomize_action_order=rao, randomize_nextstate_order=rno, seed=23)
        with warnings.catch_warnings():
            warnings.simplefilter('ignore')
            if warm:
                shw = sh.with_(absorb=sorted(set(sh.absorb) | {1}))
                rmw = menus[1 - rsel]
                with sx.must_not_raise('plan_on(first problem)'):
                    planner.plan_on(build_mdp(sx, shw, {(s, a, ns): sx.const(rmw[(s, a)]) for s in range(sh.S) for a in sh.avail[s] for ns in sh.rows[(s, a)]}))
            with sx.must_not_raise('plan_on'):
                res = planner.plan_on(mdp)
        sx.prove(bool(res.converged), 'reports-convergence')
        sx.prove_eq(res.initial_value, ssum(sx.const(p) * (0 if s in absorbing else Vs[s]) for s, p in sh.s0.items()), 'initial-value-is-optimal', tol=F(1, 10**6))
        for sl, v in res.state_value_map.items():
            s = Ls.index(sl)
            sx.prove_le((0 if s in absorbing else Vs[s]), v, f'explored-value-is-upper-bound[{s}]', tol=F(1, 10**6))
        # closure of the returned policy from the initial support over positive-probability successors
        pol = {}
        seen, frontier = set(), [s for s, p in sh.s0.items() if p > 0]
        ok = True
        while frontier:
            s = frontier.pop()
            if s in seen or s in absorbing:
                seen.add(s)
                continue
            seen.add(s)
            try:
                d = dict(res.policy.action_dist(Ls[s]).items())
            except Exception as e:  # noqa: BLE001
                sx.prove(False, f'policy-defined-on-reachable-state[{s}]:{type(e).__name__}')
                ok = False
                continue
            sx.prove(all(AL.index(a) in sh.avail[s] for a, p in d.items() if p > 0), f'policy-picks-available-actions[{s}]')
            pol[s] = {a: d.get(AL[a], 0) for a in sh.avail[s]}
            for a in sh.avail[s]:
                if pol[s][a] > 0:
                    frontier.extend(ns for ns, p in sh.rows[(s, a)].items() if p > 0)
        for s in range(sh.S):
            if s not in pol and s not in absorbing:
                pol[s] = {a: F(1, len(sh.avail[s])) for a in sh.avail[s]}      # unreachable under the policy: irrelevant
        if ok:
            W = policy_value(sx, sh, rew, absorbing, pol)
            sx.prove_eq(ssum(sx.const(p) * (0 if s in absorbing else W[s]) for s, p in sh.s0.items()),
                        ssum(sx.const(p) * (0 if s in absorbing else Vs[s]) for s, p in sh.s0.items()), 'policy-return-is-optimal', tol=F(1, 10**6))
        sx.prove(not stubs.TAINT.reads, 'global-generator-not-consulted')
        sx.observe('iv', res.initial_value)


def jobs(tier):
    o = dict(timeout_ms=60000, budget_s=1500, max_paths=40000)
    for i, (sh, menus) in enumerate(SHAPES):
        for r in range(len(menus)):
            for rao in [False, True]:
                for rno in [False, True]:
                    if tier == 'quick' and sh.S >= 4 and rao and rno and r == 1:
                        continue
                    yield ('full_run', dict(shape=i, rsel=r, rao=rao, rno=rno), dict(o, cost=sh.S))
            yield ('full_run', dict(shape=i, rsel=r, rao=True, rno=True, hkind='zero'), o)
            if all(v <= 0 for m in menus for v in m.values()) and (i in (1, 3) or tier != 'quick'):
                yield ('full_run', dict(shape=i, rsel=r, rao=True, rno=False, hkind='zero', warm=True), o)
