"""C07 — POMDP belief updates follow Bayes' rule and the belief MDP is consistent."""
from fractions import Fraction as F

from symx import core
from symx.core import is_sym, ssum
from symx.stubs import facade
from harness.common import pomdp_shapes, generated_pshapes, build_pomdp, simplex

PROPERTY = 'C07'
FUNCTIONS = [
    'msdm.core.pomdp.pomdp.PartiallyObservableMDP.{state_estimator,predictive_observation_dist}',
    'msdm.core.pomdp.tabularpomdp.TabularPOMDP.{observation_list,observation_index,observation_matrix,state_estimator_vec,predictive_observation_vec}',
    'msdm.core.pomdp.beliefmdp.BeliefMDP.{initial_state_dist,next_state_dist,reward,is_absorbing,actions}',
    'msdm.core.pomdp.policy.ValueBasedTabularPOMDPPolicy.{initial_agentstate,next_agentstate}',
    'msdm.core.mdp.tabularmdp.TabularMarkovDecisionProcess.{state_list,action_list,transition_matrix,initial_state_vec}',
]
ASSUMPTIONS = [
    'beliefs are symbolic points of the simplex (zero components allowed); transition and observation kernels come from rational '
    'menus (one symbolic family per product); a second harness takes beliefs from a menu and makes one observation row symbolic',
    'numpy facade; np.isclose modelled exactly',
    'beliefs with symbolic entries hash by identity: two observation branches leading to equal beliefs are not merged in the symbolic run '
    '(asserted quantities are invariant under merging; the concrete twin exercises merging)',
]
OUTSIDE = ['more than 3 states / 2 actions / 3 observations', 'symbolic transition kernels', 'rounding']

SHAPES = pomdp_shapes()
# an observation that every kernel row lists with probability exactly 0 (it is possible nowhere)
from harness.common import PShape as _PS
SHAPES.append(_PS(2, 2, [[0, 1], [0, 1]], {(0, 0): {0: F(1, 4), 1: F(3, 4)}, (0, 1): {0: 1}, (1, 0): {1: F(1, 2), 0: F(1, 2)}, (1, 1): {1: 1}},
                  s0={0: F(1, 4), 1: F(3, 4)}, gamma=F(1, 2), name='phantom-observation',
                  obs={(0, 0): {0: 1, 2: 0}, (0, 1): {0: F(1, 4), 1: F(3, 4), 2: 0}, (1, 0): {1: 1}, (1, 1): {0: F(1, 2), 1: F(1, 2)}}, olabels=['see0', 'see1', 'never']))
NCUR = len(SHAPES)
SHAPES = SHAPES + generated_pshapes(60)      # thorough tier only


def bounds(tier):
    return dict(pomdps=[s.name for s in SHAPES[:NCUR]] + ([f'{len(SHAPES) - NCUR} generated POMDP skeletons'] if tier != 'quick' else []), states='2..3', actions='1..2', observations='1..3',
                beliefs='all points of the simplex (symbolic)', second_harness='menu beliefs x one symbolic observation row')


def _rewards(sx, sh):
    return {(s, a, ns): sx.real(f"r_{s}_{a}_{ns}", -1, 1) for s in range(sh.S) for a in sh.avail[s] for ns in sh.rows[(s, a)]}


def _post_terms(sh, b, a, o, obs):
    """unnormalised posterior u(ns) and its total, written directly from the definition"""
    u = {}
    for ns in range(sh.S):
        u[ns] = ssum(b[s] * sh_p * obs[(a, ns)].get(o, 0)
                     for s in range(sh.S) for sh_p in [sh.rows[(s, a)].get(ns, 0)] if sh_p != 0)
    return u, ssum(u.values())


def bayes(sx, shape, sym_obs_row=None, belief_sel=None, declared_obs=False, permuted=False):
    sh = SHAPES[shape]
    L, AL, OL = sh.slabels, sh.alabels, sh.olabels
    nO = len(OL)
    from msdm.core.distributions import DictDistribution
    from msdm.core.pomdp import BeliefMDP
    from msdm.core.pomdp.tabularpomdp import Belief
    import numpy as rnp
    rew = _rewards(sx, sh)
    c = sx.const
    obs = {k: {o: c(p) for o, p in row.items()} for k, row in sh.obs.items()}
    if sym_obs_row is not None:
        k = tuple(sym_obs_row)
        ps = simplex(sx, [f"obs_{k[0]}_{k[1]}_{o}" for o in range(nO)])
        obs[k] = {o: ps[o] for o in range(nO)}
        menu = [[1, 0, 0], [0, F(1, 2), F(1, 2)], [F(1, 3), F(1, 3), F(1, 3)], [F(1, 4), 0, F(3, 4)]][belief_sel][:sh.S]
        tot = sum(menu)
        b = [c(F(x) / tot) for x in menu]
    else:
        b = simplex(sx, [f"b{s}" for s in range(sh.S)])
    with facade(sx):
        # declared_obs: the observation space is declared explicitly in a non-sorted order (rotated) instead of being derived
        pomdp = build_pomdp(sx, sh, rew, obs_override=obs, observation_list=(OL[1:] + OL[:1]) if declared_obs else None)
        sl = list(pomdp.state_list)
        sx.prove(sl == L, 'state-list')
        ol = list(pomdp.observation_list)
        if declared_obs:
            sx.prove(ol == OL[1:] + OL[:1], 'declared-observation-list-kept')
        sx.prove(all(pomdp.observation_index[o_] == k_ for k_, o_ in enumerate(ol)), 'observation-index-is-position-in-observation-list')
        bdist = DictDistribution({L[s]: b[s] for s in range(sh.S)})
        bvec = rnp.array(b, dtype=float) if not sx.sym else __import__('symx.symnp', fromlist=['SymArray']).SymArray(b)
        bmdp = BeliefMDP(pomdp)
        if permuted:
            # a belief object whose states are listed in another order than the model's state list (rotated): same belief
            order = list(range(1, sh.S)) + [0]
            bel = Belief(tuple(L[i] for i in order), tuple(b[i] for i in order))
        else:
            bel = Belief(tuple(L), tuple(b))

        def at(blf, ns):
            """probability a Belief object gives to state number ns, read through its own state labels"""
            return blf.probs[list(blf.states).index(L[ns])] if L[ns] in blf.states else 0
        for a in range(sh.A):
            pred = pomdp.predictive_observation_dist(bdist, AL[a])
            pred_items = dict(pred.items())
            ai = list(pomdp.action_list).index(AL[a])
            with sx.must_not_raise('predictive_observation_vec'):
                pvec = pomdp.predictive_observation_vec(bvec, ai)
            want_tot = 0
            nb_dist = bmdp.next_state_dist(bel, AL[a])
            nb_items = list(nb_dist.items())
            sx.prove_eq(ssum(p for _, p in nb_items), 1, f'belief-mdp-next-normalised[{a}]')
            for nbel, _ in nb_items:
                sx.prove_eq(ssum(nbel.probs), 1, f'belief-mdp-next-belief-normalised[{a}]')
            for o in range(nO):
                u, tot = _post_terms(sh, b, a, o, obs)
                want_tot = want_tot + tot
                # predictive distribution is the exact marginal; zero-probability observations are absent
                got = pred_items.get(OL[o], 0)
                sx.prove_eq(got, tot, f'predictive[{a},{o}]')
                if OL[o] in ol:
                    sx.prove_eq(pvec[ol.index(OL[o])], tot, f'predictive-vec[{a},{o}]')
                else:
                    sx.prove_eq(tot, 0, f'unlisted-observation-has-zero-probability[{a},{o}]')
                # Bayes posterior
                post = pomdp.state_estimator(bdist, AL[a], OL[o])
                items = dict(post.items())
                if bool(tot == 0):
                    sx.prove(len(items) == 0, f'impossible-observation-empty-posterior[{a},{o}]')
                    # the policy-side update follows the same (empty) posterior: no state keeps any mass
                    from msdm.core.pomdp.policy import ValueBasedTabularPOMDPPolicy as _VB

                    class _P0(_VB):
                        def action_value(self, b_, a_):
                            return 0
                    nag0 = _P0(pomdp).next_agentstate(bel, AL[a], OL[o])
                    for ns in range(sh.S):
                        sx.prove_eq(at(nag0, ns), 0, f'agentstate-update-after-impossible-observation-is-empty[{a},{o},{ns}]', tol=0)
                else:
                    sx.prove_eq(ssum(items.values()), 1, f'posterior-normalised[{a},{o}]')
                    for ns in range(sh.S):
                        sx.prove_eq(items.get(L[ns], 0) * tot, u[ns], f'bayes[{a},{o},{ns}]')
                        if L[ns] in items:
                            sx.prove(items[L[ns]] > 0, f'posterior-support-positive[{a},{o},{ns}]')
                    if OL[o] in ol:
                        oi = ol.index(OL[o])
                        pv = pomdp.state_estimator_vec(bvec, ai, oi)
                        for ns in range(sh.S):
                            sx.prove_eq(pv[ns], items.get(L[ns], 0), f'dict-and-vec-agree[{a},{o},{ns}]')
                    # the policy's own agent-state update is the same posterior
                    from msdm.core.pomdp.policy import ValueBasedTabularPOMDPPolicy

                    class _P(ValueBasedTabularPOMDPPolicy):
                        def action_value(self, b_, a_):
                            return 0
                    nag = _P(pomdp).next_agentstate(bel, AL[a], OL[o])
                    for ns in range(sh.S):
                        sx.prove_eq(at(nag, ns), items.get(L[ns], 0), f'agentstate-update-is-posterior[{a},{o},{ns}]')
                    # belief MDP: the branch of o carries probability tot and the posterior
                    # (one merged condition, no forking: comparisons of rational functions stay out of the path condition)
                    match = core.sany([core.sall([sx.close(at(nb, ns), items.get(L[ns], 0)) for ns in range(sh.S)]) for nb, p in nb_items])
                    sx.prove(match, f'belief-mdp-has-posterior-branch[{a},{o}]')
            sx.prove_eq(want_tot, 1, f'predictive-sums-to-1[{a}]')
            sx.prove_eq(ssum(pred_items.values()), 1, f'predictive-dist-sums-to-1[{a}]')
            # probability-weighted mean of next beliefs = one-step state prediction
            for ns in (range(sh.S) if sym_obs_row is None else []):   # (degree-3 rational identity when an observation row is symbolic: first harness only)
                mean = ssum(p * at(nb, ns) for nb, p in nb_items)
                want = ssum(b[s] * c(sh.rows[(s, a)].get(ns, 0)) for s in range(sh.S) if sh.rows[(s, a)].get(ns, 0) != 0)
                sx.prove_eq(mean, want, f'belief-mdp-mean-is-state-prediction[{a},{ns}]', tol=F(1, 10**7))
            r = bmdp.reward(bel, AL[a], None)
            want_r = ssum(b[s] * c(p) * rew[(s, a, ns)] for s in range(sh.S) for ns, p in sh.rows[(s, a)].items() if p != 0)
            sx.prove_eq(r, want_r, f'belief-mdp-reward[{a}]')
        allabs = core.sall([(b[s] == 0) for s in range(sh.S) if s not in sh.absorb])
        got_abs = bmdp.is_absorbing(bel)
        sx.prove((got_abs == allabs) if is_sym(allabs) else (bool(got_abs) == bool(allabs)), 'belief-absorbing-iff-mass-on-absorbing')
        b0 = bmdp.initial_state_dist()
        (ib, ip), = list(b0.items())
        sx.prove_eq(ip, 1, 'belief-mdp-initial-deterministic')
        for s in range(sh.S):
            sx.prove_eq(at(ib, s), c(sh.s0.get(s, 0)), f'belief-mdp-initial-belief[{s}]')
        sx.prove(tuple(bmdp.actions(bel)) == tuple(pomdp.action_list), 'belief-mdp-actions')
        sx.observe('pred', [pred_items.get(OL[o], 0) for o in range(nO)])


def jobs(tier):
    o = dict(timeout_ms=15000, budget_s=(120 if tier == 'quick' else 900), max_paths=5000)
    if tier != 'quick':
        for i in range(NCUR, len(SHAPES)):
            yield ('bayes', dict(shape=i), dict(o, cost=5))
            yield ('bayes', dict(shape=i, permuted=True, declared_obs=(len(SHAPES[i].olabels) > 1)), dict(o, cost=5))
            rows = sorted(SHAPES[i].obs)
            yield ('bayes', dict(shape=i, sym_obs_row=list(rows[0]), belief_sel=1), o)
    for i, sh in enumerate(SHAPES[:NCUR]):
        yield ('bayes', dict(shape=i), dict(o, cost=5))
        yield ('bayes', dict(shape=i, declared_obs=True), dict(o, cost=5))
        yield ('bayes', dict(shape=i, permuted=True), dict(o, cost=5))
        rows = sorted(sh.obs)
        for k in (rows[:2] if tier == 'quick' else rows):
            for bs in ([0, 1] if tier == 'quick' else [0, 1, 2, 3]):
                yield ('bayes', dict(shape=i, sym_obs_row=list(k), belief_sel=bs), o)
