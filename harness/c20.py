"""C20 — built-in domains define well-formed models for every layout and parameter."""
from fractions import Fraction as F
import itertools

from symx import core, stubs
from symx.core import is_sym, ssum
from symx.stubs import facade, shadow

PROPERTY = 'C20'
FUNCTIONS = [
    'msdm.domains.gridworld.mdp.GridWorld.{__init__,next_state_dist,reward,actions,initial_state_dist,is_absorbing,state_list}',
    'msdm.core.utils.gridstringutils.string_to_element_array',
    'msdm.domains.gridmdp.gridmdp.GridMDP.{grid,location_feature_dict,feature_locations_dict,feature_at,locations_with,actions}',
    'msdm.domains.gridmdp.windygridworld.WindyGridWorld.{next_state_reward_dist,next_state_dist,reward,_effect_of_wind,_effect_of_action,_effect_of_walls,_effect_of_features,initial_state_dist,is_absorbing}',
    'msdm.domains.cliffwalking.CliffWalking.*', 'msdm.domains.tiger.Tiger.*', 'msdm.domains.loadunload.LoadUnload.*', 'msdm.domains.heavenorhell.HeavenOrHell.*',
    'msdm.core.mdp.tabularmdp.TabularMarkovDecisionProcess.{state_list,transition_matrix,reward_matrix,...}', 'msdm.core.pomdp.tabularpomdp.TabularPOMDP.observation_matrix',
    'msdm.algorithms.valueiteration.ValueIteration.plan_on',
]
ASSUMPTIONS = [
    'the layout is enumerated exhaustively inside the bound (one case per layout; the parser runs concretely on each); the agent position and '
    'action are symbolic integers (concretised by forking), success / wind probabilities, coherence, step and bump costs, feature rewards are symbolic reals',
    'planning on the built arrays uses 3 sweeps of value iteration with probabilities from the menu {0, 1/2, 1} (products of two symbolic families avoided)',
]
OUTSIDE = ['layouts with more cells than the bound (a menu of larger layouts is included)', 'layouts without a start cell', 'rounding']

GW_ALPHABET = '.sg#x'
WG_ALPHABET = '.@$#^v<>x'


def bounds(tier):
    return dict(gridworld_layouts='all layouts over ".sg#x" with a start cell: 1x1..1x4, 2x1..4x1, 2x2 (quick); also 1x5, 5x1 and, over ".sg#", 3x2 and 2x3 (thorough)',
                windy_layouts='all layouts over ".@$#^v<>x" with a start cell up to 3 cells (quick) / 4 cells (thorough) + menu',
                larger_menu=True, loadunload_nstates='2..5', heavenorhell_grids='default + menu')


def gw_layouts(tier):
    shapes = [(1, 1), (2, 1), (1, 2), (3, 1), (1, 3), (4, 1), (1, 4), (2, 2)]
    if tier != 'quick':
        shapes += [(5, 1), (1, 5), (3, 2), (2, 3)]
    for w, h in shapes:
        # (six-cell grids: without the 'x' feature, which behaves like 'g' with another reward - 3367 instead of 11529 layouts each)
        alphabet = GW_ALPHABET if w * h <= 5 else [c for c in GW_ALPHABET if c != 'x']
        for cells in itertools.product(alphabet, repeat=w * h):
            if 's' not in cells:
                continue
            yield [''.join(cells[r * w:(r + 1) * w]) for r in range(h)]
    yield ['s...', '.##.', '...g']
    yield ['s.g.', '.#g.', 'x...', '..#s', '....']      # goal column cutting the grid, 5 rows x 4
    yield ['#####', '#s#.g', '#####']                    # walled-in start
    yield ['gsg']
    yield ['s', 'g', '.']


def gridworld(sx, layout):
    from msdm.domains import GridWorld
    from frozendict import frozendict
    sp = sx.real('success_prob', 0, 1)
    sc = sx.real('step_cost', -3, 3)
    gr = sx.real('goal_reward', -5, 5)
    xr = sx.real('x_reward', -5, 5)
    fr = {'g': gr, 'x': xr}
    with facade(sx):
        with sx.must_not_raise('construct'):
            gw = GridWorld(layout, feature_rewards=fr, step_cost=sc, success_prob=sp, discount_rate=sx.const(F(9, 10)))
        W, Hh = gw.width, gw.height
        sl = list(gw.state_list)
        TERM = frozendict({'x': -1, 'y': -1})
        x = sx.integer('x', 0, W - 1)
        y = sx.integer('y', 0, Hh - 1)
        acts = gw.actions(None)
        sx.prove(len(acts) >= 1, 'at-least-one-action')
        ai = sx.integer('a', 0, len(acts) - 1)
        a = acts[int(ai)]
        xs, ys = int(x), int(y)
        walls = {(w_['x'], w_['y']) for w_ in gw.walls}
        absorb = {(w_['x'], w_['y']) for w_ in gw.absorbing_states}
        feat = {(k['x'], k['y']): v for k, v in gw.location_features.items()}

        def check_query(xs, ys, a, tag=''):
            s = frozendict({'x': xs, 'y': ys})
            with sx.must_not_raise(f'{tag}next_state_dist'):
                d = gw.next_state_dist(s, a)
                items = list(d.items())
            sx.prove_eq(ssum(p for _, p in items), 1, f'{tag}normalised')
            for ns, p in items:
                sx.prove(ns in sl, f'{tag}successor-in-state-list')
                if (xs, ys) in absorb:
                    sx.prove(ns == TERM, f'{tag}absorbing-feature-goes-to-terminal')
                    sx.prove_eq(gw.reward(s, a, ns), 0, f'{tag}terminal-transition-pays-nothing', tol=0)
                    continue
                dx, dy = ns['x'] - xs, ns['y'] - ys
                sx.prove(abs(dx) + abs(dy) <= 1, f'{tag}moves-at-most-one-cell')
                if (dx, dy) != (0, 0):
                    sx.prove((dx, dy) == (a['dx'], a['dy']), f'{tag}moves-only-as-commanded')
                    sx.prove((ns['x'], ns['y']) not in walls, f'{tag}never-enters-a-wall')
                    sx.prove(0 <= ns['x'] < W and 0 <= ns['y'] < Hh, f'{tag}never-leaves-the-grid')
                    sx.prove_eq(p, sp, f'{tag}succeeds-with-configured-probability', tol=0)
                else:
                    tx, ty = xs + a['dx'], ys + a['dy']
                    can_move = (a['dx'], a['dy']) != (0, 0) and 0 <= tx < W and 0 <= ty < Hh and (tx, ty) not in walls
                    sx.prove_eq(p, (1 - sp) if can_move else 1, f'{tag}stays-with-complementary-probability', tol=0)
                r = gw.reward(s, a, ns)
                f = feat.get((ns['x'], ns['y']), '')
                sx.prove_eq(r, sc + fr.get(f, 0), f'{tag}reward-is-step-cost-plus-entered-feature', tol=0)
            return items
        items = check_query(xs, ys, a)
        # the same object is then asked about every other cell and action (an arbitrary first query, then all of them, then the
        # first one again): every answer is for its own origin
        if W * Hh <= 6:
            for yy in range(Hh):
                for xx in range(W):
                    if (xx, yy) in walls:
                        continue
                    for a2 in acts:
                        check_query(xx, yy, a2, 'later-query:')
            check_query(xs, ys, a, 'repeated-query:')
        # terminal state: absorbing, zero reward self loop
        sx.prove(gw.is_absorbing(TERM) and list(gw.next_state_dist(TERM, a).items()) == [(TERM, 1)], 'terminal-is-absorbing')
        init = list(gw.initial_state_dist().items())
        sx.prove_eq(ssum(p for _, p in init), 1, 'initial-normalised')
        sx.prove(all(s0 in sl for s0, _ in init), 'initial-in-state-list')
        sx.observe('n', len(items))


def gridworld_plan(sx, layout, spsel):
    """arrays can be built and planned on (success probability from a menu, other parameters symbolic)"""
    from msdm.domains import GridWorld
    from msdm.algorithms.valueiteration import ValueIteration
    sp = sx.const([F(0), F(1, 2), F(1)][spsel]) if spsel != 2 else 1.0
    sc = sx.real('step_cost', -3, 0)
    gr = sx.real('goal_reward', -5, 5)
    with facade(sx), shadow(sx, ['msdm.algorithms.valueiteration']):
        gw = GridWorld(layout, feature_rewards={'g': gr, 'x': sx.const(F(-2))}, step_cost=sc, success_prob=sp, discount_rate=sx.const(F(9, 10)))
        with sx.must_not_raise('build-arrays'):
            tm = gw.transition_matrix
            rm = gw.reward_matrix
            _ = gw.absorbing_state_vec, gw.initial_state_vec, gw.action_matrix
        import numpy as rnp
        for i in range(tm.shape[0]):
            for j in range(tm.shape[1]):
                sx.prove_eq(ssum(tm[i, j, k] for k in range(tm.shape[2])), 1, 'matrix-row-normalised')
        with sx.must_not_raise('plan'):
            res = ValueIteration(max_iterations=3, max_residual=sx.const(F(1, 1000))).plan_on(gw)
        sx.prove(len(list(res.state_value.keys())) == len(gw.state_list), 'plan-covers-state-list')


WG_MENU = [['....$', 'x^x<<', '.^x<<', '@....'], ['@.$>'], ['>@<', '^$v'], ['@>>$'], ['v@', '$^']]


def wg_layouts(tier):
    shapes = [(1, 1), (2, 1), (1, 2), (3, 1), (1, 3)]
    if tier != 'quick':
        shapes += [(4, 1), (1, 4), (2, 2)]
    for w, h in shapes:
        for cells in itertools.product(WG_ALPHABET, repeat=w * h):
            if '@' not in cells:
                continue
            yield [''.join(cells[r * w:(r + 1) * w]) for r in range(h)]
    yield ['....$', 'x^x<<', '.^x<<', '@....']
    yield ['@.$>']           # goal cuts the grid, wind behind it
    yield ['>@<', '^$v']
    yield ['@>>$']
    yield ['v@', '$^']


def windy(sx, layout, default_rewards=False):
    from msdm.domains.gridmdp.windygridworld import WindyGridWorld
    from msdm.domains.gridmdp import Location
    wp = sx.real('wind_probability', 0, 1)
    sc = sx.real('step_cost', -3, 3)
    bc = sx.real('wall_bump_cost', -3, 3)
    xr = sx.real('x_reward', -5, 5)
    gr = sx.real('goal_reward', -5, 5)
    grid = '\n'.join(layout)
    with facade(sx):
        with sx.must_not_raise('construct'):
            if default_rewards:
                wg = WindyGridWorld(grid, step_cost=sc, wall_bump_cost=bc, wind_probability=wp)
            else:
                wg = WindyGridWorld(grid, feature_rewards={'x': xr, '$': gr}, step_cost=sc, wall_bump_cost=bc, wind_probability=wp)
        W, Hh = wg.width, wg.height
        with sx.must_not_raise('state-list'):
            sl = list(wg.state_list)
        init = list(wg.initial_state_dist().items())
        sx.prove_eq(ssum(p for _, p in init), 1, 'initial-normalised')
        sx.prove(all(s0 in sl for s0, _ in init), 'initial-in-state-list')
        # an arbitrary state of the state list and an arbitrary action
        si = sx.integer('state_index', 0, len(sl) - 1)
        s = sl[int(si)]
        acts = wg.actions(s)
        sx.prove(len(acts) >= 1, 'at-least-one-action')
        a = acts[int(sx.integer('a', 0, len(acts) - 1))]
        with sx.must_not_raise('next_state_dist'):
            items = list(wg.next_state_dist(s, a).items())
        sx.prove_eq(ssum(p for _, p in items), 1, 'normalised')
        walls = {loc for loc, f in wg.location_feature_dict.items() if f in wg.wall_features}
        for ns, p in items:
            pos = p > 0
            if bool(pos):
                if not wg.is_absorbing(s):
                    sx.prove(ns in sl, 'positive-probability-successor-in-state-list')
                sx.prove(0 <= ns.x < W and 0 <= ns.y < Hh, 'successor-on-grid')
                with sx.must_not_raise('reward'):
                    r = wg.reward(s, a, ns)
                sx.prove(not core._is_inf(r) and r == r, 'reward-finite')
        sx.observe('n', len(items))


def windy_plan(sx, layout, wsel):
    from msdm.domains.gridmdp.windygridworld import WindyGridWorld
    from msdm.algorithms.valueiteration import ValueIteration
    wp = sx.const([F(0), F(1, 2), F(1)][wsel])
    sc = sx.real('step_cost', -3, 0)
    with facade(sx), shadow(sx, ['msdm.algorithms.valueiteration']):
        wg = WindyGridWorld('\n'.join(layout), feature_rewards={'x': sx.const(F(-5)), '$': sx.real('goal_reward', -5, 5)}, step_cost=sc,
                            wall_bump_cost=sx.const(F(-1)), wind_probability=wp, discount_rate=sx.const(F(9, 10)))
        with sx.must_not_raise('build-arrays'):
            tm = wg.transition_matrix
            _ = wg.reward_matrix, wg.absorbing_state_vec, wg.initial_state_vec
        for i in range(tm.shape[0]):
            for j in range(tm.shape[1]):
                sx.prove_eq(ssum(tm[i, j, k] for k in range(tm.shape[2])), 1, 'matrix-row-normalised')
        with sx.must_not_raise('plan'):
            ValueIteration(max_iterations=3, max_residual=sx.const(F(1, 1000))).plan_on(wg)
        sx.prove(True, 'planned')


def _generic_model_checks(sx, m, pomdp):
    """every state/action: normalised transitions inside the state list, finite rewards, >= 1 action; observation kernel normalised"""
    sl = list(m.state_list)
    init = list(m.initial_state_dist().items())
    sx.prove_eq(ssum(p for _, p in init), 1, 'initial-normalised')
    sx.prove(all(s0 in sl for s0, p in init if bool(p > 0)), 'initial-in-state-list')
    for s in sl:
        acts = m.actions(s)
        sx.prove(len(acts) >= 1, 'at-least-one-action')
        for a in acts:
            items = list(m.next_state_dist(s, a).items())
            sx.prove_eq(ssum(p for _, p in items), 1, 'normalised')
            for ns, p in items:
                if bool(p > 0):
                    sx.prove(ns in sl, 'positive-probability-successor-in-state-list')
                    r = m.reward(s, a, ns)
                    sx.prove(not core._is_inf(r), 'reward-finite')
                    if pomdp:
                        od = list(m.observation_dist(a, ns).items())
                        sx.prove_eq(ssum(q for _, q in od), 1, 'observation-normalised')
                        sx.prove(core.sall([q >= 0 for _, q in od]), 'observation-probabilities-non-negative')


def small_domains(sx, which, arg=0):
    from msdm.algorithms.valueiteration import ValueIteration
    with facade(sx), shadow(sx, ['msdm.algorithms.valueiteration']):
        pomdp = True
        if which == 'cliff':
            from msdm.domains.cliffwalking import CliffWalking
            m = CliffWalking()
            pomdp = False
        elif which == 'tiger':
            from msdm.domains.tiger import Tiger
            m = Tiger(coherence=sx.real('coherence', 0, 1), discount_rate=sx.const(F(9, 10)))
        elif which == 'loadunload':
            from msdm.domains.loadunload import LoadUnload
            m = LoadUnload(nstates=arg, discount_rate=sx.const(F(9, 10)))
        else:
            from msdm.domains.heavenorhell import HeavenOrHell
            grids = [None, "hsg\n#c#", "h.g.c\n..s..", "g\ns\nc\nh", "hcg\n.s."]
            m = HeavenOrHell(coherence=sx.real('coherence', 0, 1), discount_rate=sx.const(F(9, 10)), step_cost=sx.real('step_cost', -2, 0),
                             heaven_reward=sx.real('heaven', 0, 50), hell_reward=sx.real('hell', -50, 0), grid=grids[arg])
        with sx.must_not_raise('state-list'):
            sl = list(m.state_list)
        _generic_model_checks(sx, m, pomdp)
        with sx.must_not_raise('build-arrays'):
            tm = m.transition_matrix
            _ = m.reward_matrix, m.absorbing_state_vec, m.initial_state_vec
            if pomdp:
                om = m.observation_matrix
        for i in range(tm.shape[0]):
            for j in range(tm.shape[1]):
                sx.prove_eq(ssum(tm[i, j, k] for k in range(tm.shape[2])), 1, 'matrix-row-normalised')
        if pomdp:
            for ai in range(om.shape[0]):
                for ni in range(om.shape[1]):
                    sx.prove_eq(ssum(om[ai, ni, k] for k in range(om.shape[2])), 1, 'observation-matrix-row-normalised')
        if which != 'cliff':
            with sx.must_not_raise('plan'):
                ValueIteration(max_iterations=3, max_residual=sx.const(F(1, 1000))).plan_on(m)
        else:
            with sx.must_not_raise('plan'):
                ValueIteration(max_iterations=3, max_residual=sx.const(F(1, 1000))).plan_on(m)
        sx.prove(True, 'planned')


def jobs(tier):
    o = dict(timeout_ms=15000, budget_s=(300 if tier == 'quick' else 600), twin=1)
    k = 0
    for lay in gw_layouts(tier):
        k += 1
        yield ('gridworld', dict(layout=lay), dict(o, twin=1 if k % 25 == 0 else 0))
        if len(''.join(lay)) <= 3 or k % 40 == 0 or len(lay[0]) >= 4 and len(lay) >= 3:
            for spsel in range(3):
                yield ('gridworld_plan', dict(layout=lay, spsel=spsel), dict(o, twin=0))
    k = 0
    for lay in wg_layouts(tier):
        k += 1
        yield ('windy', dict(layout=lay), dict(o, twin=1 if k % 25 == 0 else 0))
        if k % 15 == 0 or lay in WG_MENU:
            for wsel in range(3):
                yield ('windy_plan', dict(layout=lay, wsel=wsel), dict(o, twin=0))
    yield ('windy', dict(layout=['@.$'], default_rewards=True), o)
    yield ('windy', dict(layout=['....$', 'x^x<<', '.^x<<', '@....'], default_rewards=True), o)
    yield ('small_domains', dict(which='cliff'), dict(o, cost=50))
    yield ('small_domains', dict(which='tiger'), o)
    for n in range(2, 6):
        yield ('small_domains', dict(which='loadunload', arg=n), o)
    for g in range(5):
        yield ('small_domains', dict(which='heavenorhell', arg=g), dict(o, cost=20))
