"""C13 — a fixed seed makes every randomised component reproducible and isolated."""
import os
import sys
import json
import types
import subprocess
import contextlib
import z3
from fractions import Fraction as F

from symx import core, stubs
from symx.core import is_sym, ssum, SymInt, SymReal
from symx.stubs import facade, det_random, shadow, DetStream, SaltedOrderSet, TAINT, _ufn
from harness import c13_components as comp

PROPERTY = 'C13'
FUNCTIONS = [
    'msdm.algorithms.laostar.LAOStar.{__init__,plan_on,_run_lao_star}', 'msdm.algorithms.lrtdp.LRTDP.{__init__,plan_on,_set_up_plan_on,lrtdp,...}',
    'msdm.algorithms.search.{AStarSearch,BreadthFirstSearch}.plan_on', 'msdm.algorithms.tdlearning.TemporalDifferenceLearning.{_init_random_number_generator,train_on} x 4 learners',
    'msdm.algorithms.rmax.RMAX.{_init_random_number_generator,train_on}', 'msdm.algorithms.fscboundedpolicyiteration.FSCBoundedPolicyIteration.__init__',
    'msdm.algorithms.fscgradientascent.FSCGradientAscent.__init__', 'msdm.core.semimdp.semimdp.SemiMarkovDecisionProcess.{run_simulations,next_state_transit_time_reward_dist}',
    'msdm.core.distributions.utils.obj_seed', 'msdm.core.distributions.distributions.ImplicitDistribution.{_rng,sample,items,expectation,marginalize}',
    'msdm.core.mdp.policy.Policy.{run_on,evaluate_on}', 'msdm.core.pomdp.policy.POMDPPolicy.run_on',
]
ASSUMPTIONS = [
    '2-safety by self-composition: each component is run twice in one symbolic path with the SAME symbolic integer seed (all seeds: 0, negative, large)',
    'private generators (random.Random(seed), numpy default_rng(seed), torch manual_seed) are deterministic-uninterpreted: the k-th draw of a stream is '
    'U(seed, k); their determinism is assumed, their bit streams are not modelled',
    'process-global generators return fresh unconstrained draws and set a taint flag; their prior state differs between the two runs',
    'string hashing: hash() inside msdm.core.distributions.utils is H(salt, x) for anything containing a str or an object (uninterpreted, salt differs '
    'between the two runs); sets built with set(...) in the planners iterate hash-randomised elements in a salt-dependent, solver-chosen order',
    'replays and witness runs use two real interpreter processes with different PYTHONHASHSEED and differently seeded global generators',
]
OUTSIDE = ['the numerical training loops of the controller learners beyond their seed plumbing (constructor)', 'problems larger than the 3-state examples', 'equality of actual PRNG bit streams']

COMPONENTS = comp.COMPONENTS


def bounds(tier):
    return dict(components=COMPONENTS, seeds='all integers (symbolic)', runs_compared=2, problem='3 string-named states, 2 string-named actions; 4-node string graph; 2-state POMDP')


# ------------------------------------------------------------------ models of hash / hashlib / int for obj_seed
class _HashVal:
    def __init__(self, z): self.z = z
    def to_bytes(self, *a, **k): return _HashBytes(self.z)


class _HashBytes:
    def __init__(self, z): self.z = z


class _Digest:
    def __init__(self, z): self.z = z
    def hexdigest(self): return _Hex(self.z)


class _Hex:
    def __init__(self, z): self.z = z


def _stable(e):
    if isinstance(e, (bool, int, float)) or e is None:
        return True
    if isinstance(e, (tuple, frozenset)):
        return all(_stable(x) for x in e)
    return False


def _hash_term(obj, salt):
    """z3 Int term standing for hash(obj) in an interpreter with the given salt"""
    if isinstance(obj, SymInt):
        return obj.z
    if _stable(obj):
        return z3.IntVal(hash(obj))
    if isinstance(obj, tuple):
        T = _ufn('TupleHash%d' % len(obj), *([z3.IntSort()] * (len(obj) + 1)))
        return T(*[_hash_term(x, salt) for x in obj])
    H = _ufn('SaltedHash', z3.IntSort(), z3.StringSort(), z3.IntSort())
    key = obj if isinstance(obj, str) else f"{type(obj).__name__}:{getattr(obj, 'name', '')}"
    return H(z3.IntVal(salt), z3.StringVal(key))


SALT = [1]


def _model_hash(obj):
    t = z3.simplify(_hash_term(obj, SALT[0]))
    if z3.is_int_value(t):
        return t.as_long()
    return _HashVal(t)


class _FakeHashlib:
    @staticmethod
    def sha1(b):
        if isinstance(b, _HashBytes):
            S = _ufn('Sha1', z3.IntSort(), z3.IntSort())
            return _Digest(S(b.z))
        import hashlib
        return hashlib.sha1(b)


def _model_int(x, *a):
    if isinstance(x, _Hex):
        return SymInt(x.z)
    return int(x, *a)


class _FakeTorch:
    """what FSCGradientAscent.__init__ touches"""
    class _R:
        def __init__(self, v): self.v = v
        def item(self): return self.v

    def randint(self, *a, **k):
        TAINT.reads.append('torch.randint (global torch generator)')
        c = core.CUR
        return self._R(SymInt(z3.Int(f"TORCHGLOBAL!{c.counter('torchglobal')}")))

    def __getattr__(self, k):
        import torch
        return getattr(torch, k)


class _NPRandom:
    def randint(self, *a, **k):
        TAINT.reads.append('np.random.randint (global numpy generator)')
        c = core.CUR
        return SymInt(z3.Int(f"NPGLOBAL!{c.counter('npglobal')}"))

    def seed(self, *a):
        TAINT.writes.append('np.random.seed')

    def default_rng(self, seed=None):
        return DetStream(seed, 'numpy')


@contextlib.contextmanager
def _models(sx):
    """all environment models of this property (SYM mode)"""
    import msdm.core.distributions.utils as du
    import msdm.algorithms.fscgradientascent as ga
    undo = []

    def put(mod, name, val):
        d = mod.__dict__
        undo.append((d, name, d.get(name), name in d))
        d[name] = val
    put(du, 'hash', _model_hash)
    put(du, 'hashlib', _FakeHashlib)
    put(du, 'int', _model_int)
    put(ga, 'torch', _FakeTorch())
    for mn in ['msdm.algorithms.lrtdp', 'msdm.algorithms.laostar', 'msdm.algorithms.search', 'msdm.core.mdp.mdp', 'msdm.algorithms.tdlearning',
               'msdm.core.distributions.distributions', 'msdm.core.distributions.dictdistribution']:
        put(sys.modules[mn], 'set', SaltedOrderSet)
    stubs.NP.random = _NPRandom()
    try:
        yield
    finally:
        for d, name, old, had in undo:
            if had:
                d[name] = old
            else:
                d.pop(name, None)
        try:
            del stubs.NP.random
        except AttributeError:
            pass


def _same(sx, a, b):
    """deep equality of two result structures as a (possibly symbolic) condition"""
    if isinstance(a, dict) and isinstance(b, dict):
        if set(a) != set(b):
            return False
        return core.sall([_same(sx, a[k], b[k]) for k in a if k != 'learner'])
    if isinstance(a, (list, tuple)) and isinstance(b, (list, tuple)):
        if len(a) != len(b):
            return False
        return core.sall([_same(sx, x, y) for x, y in zip(a, b)])
    if is_sym(a) or is_sym(b):
        if isinstance(a, SymInt) or isinstance(b, SymInt):
            return a == b
        return sx.close(a, b)
    if isinstance(a, (int, float, F)) and isinstance(b, (int, float, F)) and not isinstance(a, bool):
        return abs(a - b) <= 1e-9
    return a == b


_ROOT = os.path.dirname(os.path.dirname(os.path.abspath(__file__)))


def _spawn(component, seed, hashseeds):
    procs = []
    for hs in hashseeds:
        env = dict(os.environ, PYTHONHASHSEED=str(hs), PYTHONPATH=_ROOT + ':' + os.environ.get('SYMX_DEV_TREE', '/repo'))
        procs.append(subprocess.Popen(['/venv/bin/python', '-W', 'ignore', _ROOT + '/harness/c13_components.py', component, str(seed), str(111 * hs)],
                                      env=env, stdout=subprocess.PIPE, stderr=subprocess.PIPE, text=True))
    outs = []
    for p in procs:
        try:
            so, se = p.communicate(timeout=900)
        except subprocess.TimeoutExpired:
            p.kill()
            so, se = '', 'timeout'
        if p.returncode != 0:
            return None, se[-400:]
        outs.append(json.loads(so.strip().splitlines()[-1]))
    return outs, None


def _real(sx, component, seed):
    """on the real code: interpreter processes with different hash salts and different global-generator states.
    When confirming a solver-predicted violation the prediction is about SOME generator outputs and SOME set order, which the
    real Mersenne-Twister stream of that particular seed need not realise: the search is widened to a few more seeds."""
    seeds = [seed] + ([k for k in range(0, 8) if k != seed] if getattr(sx.c, 'confirming', False) else [])
    for sd in seeds:
        outs, err = _spawn(component, sd, range(1, 9) if sd == seed else range(1, 7))
        if outs is None:
            sx.note(f"subprocess failed: {err}")
            sx.prove(False, 'component-runs-in-a-fresh-process')
            return
        same = all(o['out'] == outs[0]['out'] and o.get('out2', o['out']) == o['out'] for o in outs)
        undisturbed = all(all(o['undisturbed']) for o in outs)
        if not (same and undisturbed) or sd == seeds[-1]:
            if sd != seed:
                sx.note(f"violation realised with seed {sd} (the solver's witness seed was {seed})")
            sx.prove(same, 'same-seed-same-result')
            sx.prove(undisturbed, 'global-generators-undisturbed')
            return


def twice(sx, component):
    seed = sx.integer('seed')
    if sx.mode == 'real':
        return _real(sx, component, int(seed))
    sx.c.max_decisions = 600
    c = sx.const
    with det_random(sx) as rnd, facade(sx), _models(sx), shadow(sx, ['msdm.algorithms.lrtdp', 'msdm.algorithms.tdlearning', 'msdm.algorithms.rmax']):
        TAINT.reads.clear()
        TAINT.writes.clear()
        results, seeds_used = [], []
        for run_no, salt in ((1, 1), (2, 2)):
            SALT[0] = salt
            SaltedOrderSet.salt[0] = salt
            rnd.new_run()
            DetStream.created.clear()
            try:
                with sx.must_not_raise(f'run{run_no}'):
                    out = comp.run(component, seed, c, rnd)
            finally:
                SALT[0] = 1
                SaltedOrderSet.salt[0] = 0
            results.append(out)
            seeds_used.append([(s.seed_term, given) for s, given in DetStream.created])
        sx.prove(not TAINT.reads, 'global-generators-not-read')
        sx.prove(not TAINT.writes, 'global-generators-not-written')
        sx.prove(len(seeds_used[0]) == len(seeds_used[1]), 'same-number-of-private-generators')
        for k, ((t1, g1), (t2, g2)) in enumerate(zip(seeds_used[0], seeds_used[1])):
            sx.prove(core.SymBool(t1 == t2) if not (z3.is_int_value(t1) and z3.is_int_value(t2)) else t1.as_long() == t2.as_long(),
                     f'private-generator-seed-independent-of-run[{k}]')
        if component in ('bpi', 'gradientascent'):
            for r in results:
                sx.prove(r['seed_used'] == seed, 'seed-used-is-the-given-seed')
        sx.prove(_same(sx, results[0], results[1]), 'same-seed-same-result')


def jobs(tier):
    o = dict(timeout_ms=60000, budget_s=1500, max_paths=20000, twin=2 if tier == 'quick' else 4)
    heavy = {'laostar': 20, 'lrtdp': 20, 'doubleq': 10, 'semimdp': 5}
    for comp_name in COMPONENTS:
        yield ('twice', dict(component=comp_name), dict(o, cost=heavy.get(comp_name, 1)))
