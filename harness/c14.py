"""C14 — policy roll-outs are valid trajectories and Monte-Carlo evaluation averages them."""
from fractions import Fraction as F

from symx import core, stubs
from symx.core import is_sym, ssum
from symx.stubs import facade, NondetStream
from harness.common import (Shape, curated_shapes, proper_shapes, build_mdp, sym_rewards, pomdp_shapes, build_pomdp)

PROPERTY = 'C14'
FUNCTIONS = [
    'msdm.core.mdp.policy.Policy.{run_on,evaluate_on,calc_returns}', 'msdm.core.mdp.policy.{Step,SimulationResult,FunctionalPolicy}',
    'msdm.core.mdp.tabularpolicy.TabularPolicy.action_dist', 'msdm.core.pomdp.policy.POMDPPolicy.run_on',
    'msdm.core.pomdp.policy.ValueBasedTabularPOMDPPolicy.{initial_agentstate,action_dist,next_agentstate}',
    'msdm.core.pomdp.finitestatecontroller.{FiniteStateController,StochasticFiniteStateController}.*',
    'msdm.core.distributions.distributions.FiniteDistribution.sample',
]
ASSUMPTIONS = [
    'the generator is a nondeterministic stream: every draw is a solver-chosen index among positive-weight items, so exploring all paths '
    'explores every roll-out any seed can produce', 'the step cap and the number of simulations are symbolic integers (concretised by forking)',
    'rewards symbolic; discount in calc_returns symbolic (polynomial of degree <= 3)',
]
OUTSIDE = ['roll-outs longer than 4 steps, more than 2 simulations', 'the statistical quality of the Monte-Carlo estimate']

SHAPES = curated_shapes() + proper_shapes()
PSHAPES = pomdp_shapes()
H, Q1, Q3 = F(1, 2), F(1, 4), F(3, 4)


def bounds(tier):
    return dict(mdp_skeletons=[s.name for s in SHAPES], pomdp_skeletons=[s.name for s in PSHAPES],
                max_steps='0..3 (quick) / 0..4 (thorough), symbolic', n_simulations='1..2', policies=['uniform', 'first-action', 'zero-mass-on-an-available-action', 'tabular'])


def _policy(sx, sh, kind):
    from msdm.core.mdp.policy import FunctionalPolicy
    from msdm.core.mdp import TabularPolicy
    from msdm.core.distributions import DictDistribution
    import numpy as rnp
    L, AL = sh.slabels, sh.alabels
    pi = {}
    for s in range(sh.S):
        av = sh.avail[s]
        if kind == 'uniform' or len(av) == 1:
            pi[s] = {a: F(1, len(av)) for a in av}
        elif kind == 'first':
            pi[s] = {av[0]: F(1)}
        elif kind == 'zero':     # explicit zero mass on an available action
            pi[s] = {av[0]: F(0), av[1]: F(1)}
        else:
            pi[s] = {av[0]: Q1, av[1]: Q3}
    if kind == 'tabular':
        data = [[sx.const(pi[s].get(a, 0)) for a in range(sh.A)] for s in range(sh.S)]
        if sx.sym:
            from symx.symnp import SymArray
            data = SymArray(data)
        else:
            data = rnp.array(data, dtype=float)
        pol = TabularPolicy.from_state_action_lists(state_list=tuple(L), action_list=tuple(AL), data=data)
    else:
        pol = FunctionalPolicy(lambda s: DictDistribution({AL[a]: sx.const(p) for a, p in pi[L.index(s)].items()}))
    return pol, pi


def _check_traj(sx, sh, rew, pi, steps, cap, start, tag=''):
    """steps: list of Step dicts (last one bare)"""
    L, AL = sh.slabels, sh.alabels
    si = {l: i for i, l in enumerate(L)}
    ai = {l: i for i, l in enumerate(AL)}
    n = len(steps) - 1
    sx.prove(n >= 0, f'{tag}has-final-step')
    sx.prove(steps[0]['state'] == start, f'{tag}starts-at-initial-state')
    last = steps[-1]
    sx.prove(set(last.keys()) == {'state'}, f'{tag}final-step-is-bare')
    sx.prove(n <= cap, f'{tag}at-most-cap-steps')
    ok_chain = True
    for t, st in enumerate(steps[:-1]):
        s, a, ns = si[st['state']], ai[st['action']], si[st['next_state']]
        sx.prove(st['timestep'] == t, f'{tag}timestep[{t}]')
        sx.prove(s not in sh.absorb, f'{tag}no-step-from-absorbing[{t}]')
        sx.prove(a in sh.avail[s] and pi[s].get(a, 0) > 0, f'{tag}action-has-positive-policy-probability[{t}]')
        sx.prove(sh.rows[(s, a)].get(ns, 0) > 0, f'{tag}successor-has-positive-probability[{t}]')
        sx.prove_eq(st['reward'], rew[(s, a, ns)], f'{tag}reward-is-model-reward[{t}]', tol=0)
        ok_chain = ok_chain and (steps[t + 1]['state'] == st['next_state'])
    sx.prove(ok_chain, f'{tag}steps-chain')
    fin = si[last['state']]
    # stops exactly at the first absorbing state or at the cap
    sx.prove((fin in sh.absorb) or n == cap, f'{tag}stops-only-at-absorbing-or-cap')


def rollout(sx, shape, kind, given_start, capmax):
    sh = SHAPES[shape]
    rew = sym_rewards(sx, sh, -1, 1)
    L = sh.slabels
    cap = sx.integer('max_steps', 0, capmax)
    with facade(sx):
        mdp = build_mdp(sx, sh, rew)
        pol, pi = _policy(sx, sh, kind)
        rng = NondetStream(5)
        start = None
        if given_start is not None:
            start = L[given_start]
        with sx.must_not_raise('run_on'):
            res = pol.run_on(mdp, initial_state=start, max_steps=cap, rng=rng)
        capv = int(cap)
        steps = list(res)
        if start is None:
            s0 = steps[0]['state']
            sx.prove(sh.s0.get(L.index(s0), 0) > 0, 'sampled-start-has-positive-initial-probability')
            start = s0
        _check_traj(sx, sh, rew, pi, steps, capv, start)
        sx.prove(not stubs.TAINT.reads, 'global-generator-not-consulted')
        # accessors
        sx.prove(len(res) == len(steps) and res.state == [s['state'] for s in steps], 'result-accessors')
        sx.prove(len(res.reward) == len(steps), 'reward-accessor-length')
        sx.observe('n', len(steps))


def returns(sx, n):
    """calc_returns equals the backward recursion ret[t] = r[t] + g*ret[t+1]"""
    from msdm.core.mdp.policy import Policy
    g = sx.real('gamma', 0, 1)
    rs = [sx.real(f"r{t}", -2, 2) for t in range(n)]
    with facade(sx):
        with sx.must_not_raise('calc_returns'):
            rets = Policy.calc_returns(list(rs), g)
        sx.prove(len(rets) == n, 'returns-length')
        want = [0] * (n + 1)
        for t in range(n - 1, -1, -1):
            want[t] = rs[t] + g * want[t + 1]
        for t in range(n):
            sx.prove_eq(rets[t], want[t], f'return[{t}]')
        sx.observe('ret0', rets[0] if n else 0)


def evaluate(sx, shape, kind, nsim, cap):
    """evaluate_on reports exactly the averages of its own roll-outs"""
    sh = SHAPES[shape]
    rew = sym_rewards(sx, sh, -1, 1)
    L, AL = sh.slabels, sh.alabels
    g = sx.const(sh.gamma)
    from msdm.core.mdp.policy import Policy
    with facade(sx):
        mdp = build_mdp(sx, sh, rew)
        pol, pi = _policy(sx, sh, kind)
        rng = NondetStream(5)
        runs = []
        orig = type(pol).run_on

        def spy(self_, *a, **k):
            r = orig(self_, *a, **k)
            runs.append(r)
            return r
        pol.run_on = spy.__get__(pol)
        with sx.must_not_raise('evaluate_on'):
            ev = Policy.evaluate_on(pol, mdp, n_simulations=nsim, max_steps=cap, rng=rng)   # the simulation-based evaluator
        sx.prove(len(runs) == nsim, 'one-roll-out-per-simulation')
        sv, cnt, av = {}, {}, {}
        iv = []
        for r in runs:
            steps = list(r)
            _check_traj(sx, sh, rew, pi, steps, cap, steps[0]['state'], tag='sim-')
            rr = [st.get('reward', 0) for st in steps]
            ret = [0] * (len(rr) + 1)
            for t in range(len(rr) - 1, -1, -1):
                ret[t] = rr[t] + g * ret[t + 1]
            iv.append(ret[0])
            for t, st in enumerate(steps):
                s = st['state']
                sv.setdefault(s, []).append(ret[t])
                a = st.get('action', None)
                av.setdefault(s, {}).setdefault(a, []).append(ret[t])
        sx.prove_eq(ev.initial_value, ssum(iv) / nsim, 'initial-value-is-average-return')
        sx.prove(set(ev.state_value.keys()) == set(sv), 'state-values-for-visited-states')
        for s, xs in sv.items():
            sx.prove_eq(ev.state_value[s], ssum(xs) / len(xs), f'state-value-average[{L.index(s)}]')
            sx.prove_eq(ev.state_occupancy[s], F(len(xs), nsim), f'visit-frequency[{L.index(s)}]')
            for a, ys in av[s].items():
                if a is None:
                    continue
                sx.prove_eq(ev.action_value[s][a], ssum(ys) / len(ys), f'action-value-average[{L.index(s)},{AL.index(a)}]')
        sx.prove(ev.n_simulations == nsim, 'n-simulations-reported')
        sx.observe('iv', ev.initial_value)


def evaluate_deterministic(sx, cap):
    """deterministic policy on a deterministic chain: simulation = exact evaluation truncated at the cap"""
    sh = Shape(4, 2, [[0, 1], [0, 1], [0], [0]], {(0, 0): {1: 1}, (0, 1): {0: 1}, (1, 0): {2: 1}, (1, 1): {0: 1}, (2, 0): {3: 1}, (3, 0): {3: 1}},
               absorb=[3], gamma=F(9, 10), name='det-chain')
    rew = sym_rewards(sx, sh, -1, 1)
    g = sx.const(sh.gamma)
    with facade(sx):
        mdp = build_mdp(sx, sh, rew)
        pol, pi = _policy(sx, sh, 'first')
        ev = pol.evaluate_on(mdp, n_simulations=2, max_steps=cap, rng=NondetStream(1))
        path = [(0, 0, 1), (1, 0, 2), (2, 0, 3)][:cap]
        want = ssum((g ** t) * rew[k] for t, k in enumerate(path))
        sx.prove_eq(ev.initial_value, want, 'equals-truncated-exact-evaluation')


def pomdp_rollout(sx, shape, ctrl, capmax, start=0):
    sh = PSHAPES[shape]
    L, AL, OL = sh.slabels, sh.alabels, sh.olabels
    rew = {(s, a, ns): sx.real(f"r_{s}_{a}_{ns}", -1, 1) for s in range(sh.S) for a in sh.avail[s] for ns in sh.rows[(s, a)]}
    cap = sx.integer('max_steps', 0, capmax)
    from msdm.core.pomdp.policy import ValueBasedTabularPOMDPPolicy
    from msdm.core.pomdp.finitestatecontroller import StochasticFiniteStateController
    import numpy as rnp
    with facade(sx):
        pomdp = build_pomdp(sx, sh, rew)
        if ctrl == 'value':
            class P(ValueBasedTabularPOMDPPolicy):
                def action_value(self, b, a):   # prefers action 0 when belief in state 0 is high
                    return b.probs[0] if a == AL[0] else sx.const(F(1, 2))
            pol = P(pomdp)
        else:
            # stochastic controller with two nodes: node 0 mixes actions, node 1 plays the second action
            nA, nO = len(AL), len(OL)
            act = rnp.array([[0.5, 0.5], [0.0, 1.0]])
            obsst = rnp.zeros((2, nA, nO, 2))
            for a in range(nA):
                for o_ in range(nO):
                    obsst[0, a, o_] = [0.25, 0.75] if (a + o_) % 2 == 0 else [1.0, 0.0]
                    obsst[1, a, o_] = [0.0, 1.0] if o_ == 0 else [0.5, 0.5]
            pol = StochasticFiniteStateController(pomdp, act, obsst, rnp.array([1.0, 0.0]))
        rng = NondetStream(5)
        with sx.must_not_raise('pomdp-run_on'):
            traj = pol.run_on(pomdp, initial_state=L[start], max_steps=cap, rng=rng)
        capv = int(cap)
        n = len(traj) - 1
        sx.prove(n <= capv, 'at-most-cap-steps')
        sx.prove(traj[0].state == L[start], 'starts-at-given-state')
        if start in sh.absorb:
            sx.prove(n == 0, 'absorbing-start-gives-no-steps')
        ag = pol.initial_agentstate()
        sx.prove(_same_ag(sx, traj[0].agentstate, ag), 'starts-at-initial-agent-state')
        for t, st in enumerate(traj[:-1]):
            s, ns = L.index(st.state), L.index(st.nextstate)
            sx.prove(s not in sh.absorb, f'no-step-from-absorbing[{t}]')
            ad = dict(pol.action_dist(st.agentstate).items())
            sx.prove(ad.get(st.action, 0) > 0, f'action-has-positive-policy-probability[{t}]')
            a = AL.index(st.action) if st.action in AL else st.action   # the deterministic controller emits action indices
            sx.prove(sh.rows[(s, a)].get(ns, 0) > 0, f'successor-has-positive-probability[{t}]')
            sx.prove(sh.obs[(a, ns)].get(OL.index(st.observation), 0) > 0, f'observation-has-positive-probability[{t}]')
            sx.prove_eq(st.reward, rew[(s, a, ns)], f'reward-is-model-reward[{t}]', tol=0)
            sx.prove(_same_ag(sx, st.nextagentstate, pol.next_agentstate(st.agentstate, st.action, st.observation)), f'agent-state-follows-policy-update[{t}]')
            sx.prove(traj[t + 1].state == st.nextstate and _same_ag(sx, traj[t + 1].agentstate, st.nextagentstate), f'steps-chain[{t}]')
        fin = traj[-1]
        sx.prove(fin.action is None and fin.reward is None, 'final-step-is-bare')
        sx.prove(L.index(fin.state) in sh.absorb or n == capv, 'stops-only-at-absorbing-or-cap')


def _same_ag(sx, a, b):
    import numpy as rnp
    if isinstance(a, rnp.ndarray) or isinstance(b, rnp.ndarray):
        return len(a) == len(b) and all(bool(sx.close(x, y)) for x, y in zip(a, b))
    if hasattr(a, 'probs') and hasattr(b, 'probs'):
        return a.states == b.states and all(bool(sx.close(x, y)) for x, y in zip(a.probs, b.probs))
    return a == b


def jobs(tier):
    quick = tier == 'quick'
    o = dict(timeout_ms=15000, budget_s=(120 if tier == 'quick' else 600), max_paths=20000)
    capmax = 3 if quick else 4
    kinds = ['uniform', 'first', 'zero', 'tabular']
    for i, sh in enumerate(SHAPES):
        if quick and sh.name in ('full3', 'p-four'):
            ks = ['zero']
        else:
            ks = kinds
        for k in ks:
            yield ('rollout', dict(shape=i, kind=k, given_start=None, capmax=capmax), dict(o, cost=3))
            for gs in ([0] if quick else range(sh.S)):
                yield ('rollout', dict(shape=i, kind=k, given_start=gs, capmax=capmax), o)
        for s in sh.absorb:
            yield ('rollout', dict(shape=i, kind='uniform', given_start=s, capmax=capmax), o)
    for n in range(0, 5):
        yield ('returns', dict(n=n), o)
    for i in ([1, 3, 6] if quick else range(len(SHAPES))):
        for k in (['zero', 'tabular'] if quick else kinds):
            for nsim in [1, 2]:
                for cap in ([0, 2] if quick else [0, 1, 2, 3]):
                    yield ('evaluate', dict(shape=i, kind=k, nsim=nsim, cap=cap), dict(o, cost=4))
    for cap in range(0, 5):
        yield ('evaluate_deterministic', dict(cap=cap), o)
    for i in range(len(PSHAPES)):
        for ctrl in ['value', 'fsc']:
            yield ('pomdp_rollout', dict(shape=i, ctrl=ctrl, capmax=2 if quick else 3), dict(o, cost=4))
            for st in PSHAPES[i].absorb:
                yield ('pomdp_rollout', dict(shape=i, ctrl=ctrl, capmax=2, start=st), o)
