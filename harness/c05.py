"""C05 — A* and breadth-first search return valid minimum-cost / minimum-step paths."""
from fractions import Fraction as F
import itertools

from symx import core, stubs
from symx.core import is_sym, ssum
from symx.stubs import facade

PROPERTY = 'C05'
FUNCTIONS = [
    'msdm.algorithms.search.{AStarSearch.plan_on,BreadthFirstSearch.plan_on,reconstruct_path,camefrom_to_policy,make_shuffled}',
    'msdm.core.mdp.deterministic_shortest_path.DeterministicShortestPathProblem.from_mdp (+ generated subclass)',
    'msdm.core.mdp.quickmdp.QuickMDP', 'msdm.core.distributions.dictdistribution.{DeterministicDistribution,DictDistribution,UniformDistribution}.support',
    'msdm.core.mdp.policy.FunctionalPolicy',
]
ASSUMPTIONS = [
    'random.Random is a nondeterministic stream: tie-break keys are fresh reals in [0,1), shuffles are arbitrary permutations '
    '(a superset of what any seed produces)', 'heapq and collections.deque run natively and call back into the symbolic comparison operators',
    'edge costs are symbolic reals >= 0 (integers are a special case); heuristic values symbolic, constrained only by consistency '
    'h(u) <= c(u,v) + h(v), h(goal) = 0 (as values: hv = -h)',
]
OUTSIDE = ['digraphs with more than 4 nodes (quick) / 5 nodes (thorough)', 'inconsistent heuristics', 'rounding',
           'action shuffling combined with random tie-breaking on the two densest thorough graphs (dense5, complete4): each alone is covered there']


def graphs(tier):
    """(name, N, edges u->[v...], goals).  node 0 is the start"""
    G = [
        ('line3', 3, {0: [1], 1: [2], 2: []}, [2]),
        ('diamond', 4, {0: [1, 2], 1: [3], 2: [3], 3: []}, [3]),
        ('shortcut', 3, {0: [2, 1], 1: [2], 2: []}, [2]),            # direct edge listed first, 2-step route may be cheaper
        ('cycle-exit', 3, {0: [1], 1: [0, 2], 2: [2]}, [2]),
        ('selfloops', 3, {0: [0, 1], 1: [1, 2, 0], 2: []}, [2]),
        ('two-goals', 4, {0: [1, 2], 1: [3], 2: [], 3: []}, [2, 3]),
        ('unreachable-goal', 3, {0: [1], 1: [0], 2: []}, [2]),
        ('start-is-goal', 2, {0: [1], 1: []}, [0]),
        ('odd-cycle', 4, {0: [1, 2], 1: [2], 2: [3], 3: []}, [3]),    # edge between two states at the same depth
        ('dense4', 4, {0: [1, 2, 3], 1: [2, 3, 0], 2: [3, 1], 3: []}, [3]),
        ('dead-end-branch', 4, {0: [1, 2], 1: [], 2: [3], 3: []}, [3]),
    ]
    if tier != 'quick':
        G += [
            ('dense5', 5, {0: [1, 2], 1: [2, 3], 2: [3, 4, 1], 3: [4, 0], 4: []}, [4]),
            ('two-goals-5', 5, {0: [1, 2, 3], 1: [4], 2: [1, 3], 3: [], 4: []}, [3, 4]),
            ('complete4', 4, {0: [1, 2, 3], 1: [0, 2, 3], 2: [0, 1, 3], 3: []}, [3]),
        ]
    return G


def bounds(tier):
    return dict(graphs=[g[0] for g in graphs(tier)], nodes='2..4' if tier == 'quick' else '2..5',
                tie_breaking=['lifo', 'fifo', 'random'], randomize_action_order=[False, True],
                representations=['next_state', 'DeterministicDistribution', 'single-entry DictDistribution', 'single-element UniformDistribution'])


def simple_paths(N, E, goals):
    out = []

    def rec(path):
        u = path[-1]
        if u in goals:
            out.append(list(path))
            return
        for v in E[u]:
            if v not in path:
                rec(path + [v])
    rec([0])
    return out


LABELS = ['n0', ('n', 1), 2, 'n3', ('n', 4)]


def _mk(sx, g, cost, rep):
    from msdm.core.mdp import QuickMDP
    from msdm.core.distributions import DictDistribution, DeterministicDistribution, UniformDistribution
    name, N, E, goals = g
    L = LABELS
    idx = {L[i]: i for i in range(N)}

    def wrap(x):
        if rep == 'det':
            return DeterministicDistribution(x)
        if rep == 'dict1':
            return DictDistribution({x: 1})
        if rep == 'uniform1':
            return UniformDistribution((x,))
    kw = dict(reward=lambda s, a, ns: -cost[(idx[s], idx[a])], actions=lambda s: tuple(L[v] for v in E[idx[s]]),
              is_absorbing=lambda s: idx[s] in goals)
    if rep == 'next_state':
        return QuickMDP(next_state=lambda s, a: a, initial_state=L[0], **kw)
    return QuickMDP(next_state_dist=lambda s, a: wrap(a), initial_state_dist=wrap(L[0]), **kw)


def _check_path(sx, g, cost, res, tag):
    """path starts at the initial state, follows real transitions under the returned policy, ends at a goal"""
    name, N, E, goals = g
    L = LABELS
    idx = {L[i]: i for i in range(N)}
    path = [idx[s] for s in res.path]
    sx.prove(path[0] == 0, f'{tag}path-starts-at-initial-state')
    sx.prove(path[-1] in goals, f'{tag}path-ends-at-absorbing-state')
    ok = True
    for u, v in zip(path, path[1:]):
        ok = ok and (v in E[u]) and (u not in goals)
        a = res.policy.action_dist(L[u]).sample()
        ok = ok and (a == L[v])   # next_state(s, a) = a in these problems
    sx.prove(ok, f'{tag}path-follows-real-transitions-under-policy')
    return path


def _other_problem(sx, g0):
    """a different shortest-path problem (other graph, unit costs) converted while the first conversion is still in use"""
    from msdm.core.mdp.deterministic_shortest_path import DeterministicShortestPathProblem as DSP
    G = graphs('thorough')
    g1 = next(g for g in G if g[0] == ('unreachable-goal' if g0[0] != 'unreachable-goal' else 'line3'))
    return DSP.from_mdp(_mk(sx, g1, {(u, v): sx.const(F(7)) for u in range(g1[1]) for v in g1[2][u]}, 'det'))


def astar(sx, graph, tie, rao, rep, hsel, interleave=False):
    """interleave=True: the problem is converted to its shortest-path view explicitly, ANOTHER problem is converted afterwards,
    and the search then runs on the first view (conversions must be independent of each other)"""
    g = graphs('thorough')[graph]
    name, N, E, goals = g
    sx.float_slack = 1e-13      # real-code replays: only a handful of additions of the edge costs are involved
    from msdm.algorithms.search import AStarSearch
    cost = {(u, v): sx.real(f"c_{u}_{v}", 0, 10) for u in range(N) for v in E[u]}
    L = LABELS
    idx = {L[i]: i for i in range(N)}
    # heuristic: hsel 0 = zero, 1 = arbitrary consistent (symbolic)
    if hsel == 0:
        h = {u: 0 for u in range(N)}
    else:
        h = {u: (0 if u in goals else sx.real(f"h_{u}", 0, 40)) for u in range(N)}
        for (u, v), c in cost.items():
            sx.assume(h[u] <= c + h[v])
    with facade(sx, random_only=True):
        mdp = _mk(sx, g, cost, rep)
        if interleave:
            from msdm.core.mdp.deterministic_shortest_path import DeterministicShortestPathProblem as DSP
            mdp = DSP.from_mdp(mdp)
            _other_problem(sx, g)
        seed = 7 if (tie == 'random' or rao) else None
        with sx.must_not_raise('astar-plan'):
            res = AStarSearch(heuristic_value=lambda s: -h[idx[s]], seed=seed, randomize_action_order=rao,
                              tie_breaking_strategy=tie).plan_on(mdp)
    paths = simple_paths(N, E, set(goals))
    if not paths:
        sx.prove(res is None, 'no-plan-iff-no-goal-reachable')
        return
    sx.prove(res is not None, 'plan-exists-when-goal-reachable')
    if res is None:
        return
    path = _check_path(sx, g, cost, res, 'astar-')
    total = ssum(cost[(u, v)] for u, v in zip(path, path[1:]) if (u, v) in cost)
    sx.prove_eq(res.path_value, total, 'path-value-is-path-cost')
    for k, p in enumerate(paths):
        sx.prove_le(res.path_value, ssum(cost[(u, v)] for u, v in zip(p, p[1:])), f'minimum-cost-vs-simple-path[{k}]')
    sx.observe('value', res.path_value)
    sx.observe('path', [repr(s) for s in res.path])


def astar_multigraph(sx, tie, rao, hsel):
    """parallel edges: several actions of one state lead to the same successor at different (symbolic) costs"""
    from msdm.algorithms.search import AStarSearch
    from msdm.core.mdp import QuickMDP
    sx.float_slack = 1e-13
    E = {'s': {'p': 'm', 'q': 'm', 'd': 'g'}, 'm': {'r': 'g', 't': 'g', 'back': 's'}, 'g': {}}
    cost = {(u, a): sx.real(f"c_{u}_{a}", 0, 10) for u in E for a in E[u]}
    if hsel == 0:
        h = {u: 0 for u in E}
    else:
        h = {'s': sx.real('h_s', 0, 40), 'm': sx.real('h_m', 0, 40), 'g': 0}
        for (u, a), c_ in cost.items():
            sx.assume(h[u] <= c_ + h[E[u][a]])
    with facade(sx, random_only=True):
        mdp = QuickMDP(next_state=lambda s_, a: E[s_][a], initial_state='s', reward=lambda s_, a, ns: -cost[(s_, a)],
                       actions=lambda s_: tuple(E[s_]), is_absorbing=lambda s_: s_ == 'g')
        with sx.must_not_raise('astar-plan'):
            res = AStarSearch(heuristic_value=lambda s_: -h[s_], seed=7 if (tie == 'random' or rao) else None, randomize_action_order=rao,
                              tie_breaking_strategy=tie).plan_on(mdp)
    sx.prove(res is not None, 'plan-exists-when-goal-reachable')
    if res is None:
        return
    path = list(res.path)
    sx.prove(path[0] == 's' and path[-1] == 'g', 'path-from-start-to-goal')
    total, ok = 0, True
    for u, v in zip(path, path[1:]):
        a = res.policy.action_dist(u).sample()
        ok = ok and a in E[u] and E[u][a] == v
        if ok:
            total = total + cost[(u, a)]
    sx.prove(ok, 'path-follows-real-transitions-under-policy')
    sx.prove_eq(res.path_value, total, 'path-value-is-cost-of-the-actions-taken')
    for k, alt in enumerate([[('s', 'd')], [('s', 'p'), ('m', 'r')], [('s', 'p'), ('m', 't')], [('s', 'q'), ('m', 'r')], [('s', 'q'), ('m', 't')]]):
        sx.prove_le(res.path_value, ssum(cost[e] for e in alt), f'minimum-cost-vs-route[{k}]')
    sx.observe('value', res.path_value)


def bfs(sx, graph, rao, rep, interleave=False):
    g = graphs('thorough')[graph]
    name, N, E, goals = g
    from msdm.algorithms.search import BreadthFirstSearch
    cost = {(u, v): sx.const(F(1)) for u in range(N) for v in E[u]}
    with facade(sx, random_only=True):
        mdp = _mk(sx, g, cost, rep)
        if interleave:
            from msdm.core.mdp.deterministic_shortest_path import DeterministicShortestPathProblem as DSP
            mdp = DSP.from_mdp(mdp)
            _other_problem(sx, g)
        with sx.must_not_raise('bfs-plan'):
            res = BreadthFirstSearch(seed=3 if rao else None, randomize_action_order=rao).plan_on(mdp)
    paths = simple_paths(N, E, set(goals))
    if not paths:
        sx.prove(res is None, 'no-plan-iff-no-goal-reachable')
        return
    sx.prove(res is not None, 'plan-exists-when-goal-reachable')
    if res is None:
        return
    path = _check_path(sx, g, cost, res, 'bfs-')
    sx.prove(len(path) - 1 == min(len(p) - 1 for p in paths), 'minimum-number-of-steps')
    sx.observe('steps', len(path) - 1)


def jobs(tier):
    quick = tier == 'quick'
    o = dict(timeout_ms=15000, budget_s=(120 if tier == 'quick' else 600), max_paths=20000)
    G = graphs(tier)
    reps = ['next_state', 'det', 'dict1', 'uniform1']
    for tie in ['lifo', 'fifo', 'random']:
        for rao in [False, True]:
            for hsel in [0, 1]:
                yield ('astar_multigraph', dict(tie=tie, rao=rao, hsel=hsel), o)
    for gi, g in enumerate(G):
        for tie in ['lifo', 'fifo', 'random']:
            for rao in [False, True]:
                if quick and rao and g[0] in ('dense4',):
                    continue   # permutations of three 3-way action lists: thorough tier only
                if rao and tie == 'random' and g[0] in ('dense5', 'complete4'):
                    continue   # shuffled actions AND random tie keys on the densest graphs: > 20000 paths per case (stated as outside)
                for hsel in [0, 1]:
                    rep = reps[(gi + hsel + (1 if rao else 0)) % 4] if quick else None
                    for r in ([rep] if quick else reps):
                        yield ('astar', dict(graph=gi, tie=tie, rao=rao, rep=r, hsel=hsel), dict(o, cost=g[1]))
        for rao in [False, True]:
            for r in reps:
                yield ('bfs', dict(graph=gi, rao=rao, rep=r), o)
        yield ('astar', dict(graph=gi, tie='lifo', rao=False, rep=reps[gi % 3 + 1], hsel=1, interleave=True), dict(o, cost=g[1]))
        yield ('bfs', dict(graph=gi, rao=False, rep=reps[gi % 3 + 1], interleave=True), o)
