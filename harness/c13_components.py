"""Components exercised by the C13 harness.  `run(name, seed, c)` builds a tiny problem whose states, actions and option
names are strings, runs the randomised component with the given seed and returns a plain nested structure of results.
Used under symbolic execution (seed symbolic, generators modelled) and, unchanged, on the real code (replays, subprocesses)."""
from fractions import Fraction as F
import random as _real_random

COMPONENTS = ['laostar', 'lrtdp', 'astar', 'bfs', 'qlearning', 'sarsa', 'expectedsarsa', 'doubleq', 'rmax', 'bpi', 'gradientascent',
              'semimdp', 'semimdp_unnamed', 'implicit', 'astar_tiebreak', 'mixture_rollout', 'mdp_rollout', 'mdp_evaluate', 'pomdp_rollout']


def _mdp(c, tabular=True):
    from msdm.core.mdp import QuickTabularMDP, QuickMDP
    from msdm.core.distributions import DictDistribution
    H = c(F(1, 2))
    # acyclic: every episode ends within two steps (keeps the symbolic runs bounded)
    rows = {('start', 'left'): {'mid': 1}, ('start', 'right'): {'mid': H, 'goal': H},
            ('mid', 'left'): {'goal': 1}, ('mid', 'right'): {'goal': 1},
            ('goal', 'left'): {'goal': 1}, ('goal', 'right'): {'goal': 1}}
    rew = {('start', 'left'): c(F(-1, 2)), ('start', 'right'): c(F(-1)), ('mid', 'left'): c(F(-1, 4)), ('mid', 'right'): c(F(-3, 4)),
           ('goal', 'left'): 0, ('goal', 'right'): 0}
    return (QuickTabularMDP if tabular else QuickMDP)(
        next_state_dist=lambda s, a: DictDistribution(rows[(s, a)]), reward=lambda s, a, ns: rew[(s, a)],
        actions=lambda s: ('left', 'right'), initial_state_dist=DictDistribution({'start': H, 'mid': H}),
        is_absorbing=lambda s: s == 'goal', discount_rate=c(F(9, 10)))


def _river(c):
    """string-named stones in a 2 x 3 layout with slippery moves (cyclic, stochastic): order-sensitive backups"""
    from msdm.core.mdp import QuickMDP
    from msdm.core.distributions import DictDistribution
    names = [["north-%d" % i for i in range(3)], ["south-%d" % i for i in range(3)]]
    pos = {names[r][k]: (r, k) for r in range(2) for k in range(3)}
    goal = "north-2"

    def clip(r, k):
        return names[max(0, min(1, r))][max(0, min(2, k))]

    def nsd(s, a):
        r, k = pos[s]
        d = {}
        if a == "east":
            for ns, p in ((clip(r, k + 1), F(3, 5)), (clip(1 - r, k), F(3, 10)), (clip(r, k - 1), F(1, 10))):
                d[ns] = d.get(ns, 0) + c(p)
        else:
            for ns, p in ((clip(1 - r, k), F(4, 5)), (clip(1 - r, k + 1), F(1, 5))):
                d[ns] = d.get(ns, 0) + c(p)
        return DictDistribution(d)

    def reward(s, a, ns):
        return c(F(-1)) + (c(F(-1, 2)) if pos[ns][0] == 1 else 0) + (c(F(-1, 4)) if a == "swap" else 0)
    return QuickMDP(next_state_dist=nsd, reward=reward, actions=lambda s: ("east", "swap"),
                    initial_state_dist=DictDistribution({"south-0": c(F(1, 2)), "north-0": c(F(1, 2))}),
                    is_absorbing=lambda s: s == goal, discount_rate=c(F(97, 100)))


def _graph():
    from msdm.core.mdp import QuickMDP
    E = {'n0': ['n1', 'n2'], 'n1': ['n3', 'n2'], 'n2': ['n3'], 'n3': []}
    return QuickMDP(next_state=lambda s, a: a, initial_state='n0', reward=lambda s, a, ns: -1, actions=lambda s: tuple(E[s]),
                    is_absorbing=lambda s: s == 'n3')


def _pomdp(c):
    from msdm.core.pomdp import TabularPOMDP
    from msdm.core.distributions import DictDistribution
    H = c(F(1, 2))

    class P(TabularPOMDP):
        discount_rate = c(F(9, 10))

        def initial_state_dist(self): return DictDistribution({'L': H, 'R': H})
        def actions(self, s): return ('stay', 'flip')
        def is_absorbing(self, s): return False
        def reward(self, s, a, ns): return c(F(1)) if ns == 'L' else c(F(0))
        def next_state_dist(self, s, a): return DictDistribution({s: 1}) if a == 'stay' else DictDistribution({'L': H, 'R': H})
        def observation_dist(self, a, ns): return DictDistribution({'seeL': c(F(3, 4)), 'seeR': c(F(1, 4))} if ns == 'L' else {'seeL': c(F(1, 4)), 'seeR': c(F(3, 4))})
    return P()


def _q(res):
    return {s: dict(row) for s, row in sorted(res.q_values.items())}


def run(name, seed, c, rnd=None):
    """rnd: the `random` module as seen by the caller (facade under symbolic execution)"""
    rnd = rnd or _real_random
    if name == 'laostar':
        from msdm.algorithms.laostar import LAOStar
        r = LAOStar(heuristic=lambda s: 0, seed=seed, randomize_action_order=True, randomize_nextstate_order=True, max_lao_star_iterations=8,
                    dynamic_programming_iterations=12).plan_on(_mdp(c))
        return dict(iv=r.initial_value, v=dict(sorted(r.state_value_map.items())), pol={s: dict(r.policy.action_dist(s).items()) for s in ('start', 'mid')})
    if name == 'lrtdp':
        from msdm.algorithms.lrtdp import LRTDP
        m = _river(c)
        r = LRTDP(heuristic=lambda s: 0, seed=seed, randomize_action_order=True, iterations=2, max_trial_length=2, bellman_error_margin=c(F(1, 100))).plan_on(m)
        return dict(iv=r.initial_value, v=dict(sorted(r.V.items())), pol={s: dict(r.policy.action_dist(s).items()) for s in sorted(r.V.keys())})
    if name == 'astar':
        from msdm.algorithms.search import AStarSearch
        r = AStarSearch(seed=seed, tie_breaking_strategy='random', randomize_action_order=True).plan_on(_graph())
        return dict(path=list(r.path), value=r.path_value)
    if name == 'astar_tiebreak':
        # random tie-breaking WITHOUT action shuffling (the constructor accepts the combination): still the planner's own generator
        from msdm.algorithms.search import AStarSearch
        r = AStarSearch(seed=seed, tie_breaking_strategy='random', randomize_action_order=False).plan_on(_graph())
        return dict(path=list(r.path), value=r.path_value)
    if name == 'mixture_rollout':
        # roll-out of a policy whose action distributions are mixtures built with the `|` operator over string actions
        from msdm.core.mdp.policy import FunctionalPolicy
        from msdm.core.distributions import DictDistribution
        pol = FunctionalPolicy(lambda s: DictDistribution({'right': 1}) * c(F(3, 5)) | DictDistribution.uniform(['left', 'right']) * c(F(2, 5)))
        r = pol.run_on(_mdp(c), max_steps=3, rng=rnd.Random(seed))
        return dict(states=r.state, actions=r.action, rewards=r.reward)
    if name == 'bfs':
        from msdm.algorithms.search import BreadthFirstSearch
        r = BreadthFirstSearch(seed=seed, randomize_action_order=True).plan_on(_graph())
        return dict(path=list(r.path))
    if name in ('qlearning', 'sarsa', 'expectedsarsa', 'doubleq'):
        import msdm.algorithms.tdlearning as td
        cls = {'qlearning': td.QLearning, 'sarsa': td.SARSA, 'expectedsarsa': td.ExpectedSARSA, 'doubleq': td.DoubleQLearning}[name]
        r = cls(episodes=1, step_size=c(F(1, 2)), rand_choose=c(F(1, 4)), seed=seed).train_on(_mdp(c))
        return dict(q=_q(r))
    if name == 'rmax':
        from msdm.algorithms.rmax import RMAX
        from msdm.core.mdp import QuickTabularMDP
        from msdm.core.distributions import DictDistribution
        H = c(F(1, 2))
        rows = {('s', 'a'): {'t': H, 'g': H}, ('s', 'b'): {'g': 1}, ('t', 'a'): {'g': 1}, ('t', 'b'): {'g': 1}, ('g', 'a'): {'g': 1}, ('g', 'b'): {'g': 1}}
        rw = {('s', 'a'): 1, ('s', 'b'): c(F(1, 4)), ('t', 'a'): c(F(1, 2)), ('t', 'b'): 0, ('g', 'a'): 0, ('g', 'b'): 0}
        m = QuickTabularMDP(next_state_dist=lambda s, a: DictDistribution(rows[(s, a)]), reward=lambda s, a, ns: rw[(s, a)], actions=lambda s: ('a', 'b'),
                            initial_state_dist=DictDistribution({'s': 1}), is_absorbing=lambda s: s == 'g', discount_rate=c(F(1, 2)))
        r = RMAX(episodes=1, rmax=1, num_transition_samples=1, bellman_convergence_diff=c(F(1, 2)), seed=seed).train_on(m)
        return dict(q=_q(r))
    if name == 'bpi':
        from msdm.algorithms.fscboundedpolicyiteration import FSCBoundedPolicyIteration
        lrn = FSCBoundedPolicyIteration(controller_state_count=1, iterations=1, seed=seed)
        return dict(seed_used=lrn.seed, learner=lrn)
    if name == 'gradientascent':
        from msdm.algorithms.fscgradientascent import FSCGradientAscent
        lrn = FSCGradientAscent(controller_state_count=1, iterations=1, seed=seed)
        return dict(seed_used=lrn.seed, learner=lrn)
    if name == 'semimdp':
        from msdm.core.semimdp.semimdp import SemiMarkovDecisionProcess
        from msdm.core.semimdp.option import Option
        from msdm.core.mdp.policy import FunctionalPolicy
        from msdm.core.distributions import DictDistribution

        class O(Option):
            def __init__(self):
                self.name = 'reach-goal'
                self.policy = FunctionalPolicy(lambda s: DictDistribution({'left': c(F(1, 2)), 'right': c(F(1, 2))}))
                self.max_steps = 6

            def is_initial(self, s): return True
            def is_terminal(self, s): return s == 'goal'
            def __hash__(self): return hash(self.name)
        sm = SemiMarkovDecisionProcess(mdp=_mdp(c, tabular=False), options=[O()], n_option_simulations=(12 if c is float else 1), seed=seed)   # on the real code: enough simulations to make a seed change visible
        d = sm.next_state_transit_time_reward_dist('start', sm.options[0])
        return dict(dist=sorted(((k[0], k[1], k[2], p) for k, p in d.items()), key=lambda t: (t[0], t[1])))
    if name == 'semimdp_unnamed':
        # sub-goal options created WITHOUT a name (the library's default), the problem built afresh on every run
        from msdm.core.semimdp.semimdp import SemiMarkovDecisionProcess
        from msdm.core.semimdp.option import PlanToSubgoalOption
        from msdm.algorithms.valueiteration import ValueIteration
        import types
        from msdm.core.mdp.policy import FunctionalPolicy
        from msdm.core.distributions import DictDistribution
        mdp = _mdp(c, tabular=True)
        wander = types.SimpleNamespace(plan_on=lambda m: types.SimpleNamespace(
            policy=FunctionalPolicy(lambda s: DictDistribution({'left': c(F(1, 2)), 'right': c(F(1, 2))}))))     # a stochastic option policy
        opts = [PlanToSubgoalOption(mdp=mdp, initial_states=['start', 'mid'], subgoals=g, planner=pl, max_steps=6)
                for g, pl in ((['goal'], wander), (['mid', 'goal'], ValueIteration(max_iterations=4)))]
        sm = SemiMarkovDecisionProcess(mdp=mdp, options=opts, n_option_simulations=(12 if c is float else 1), seed=seed)
        out = {}
        for k, o_ in enumerate(opts):
            d = sm.next_state_transit_time_reward_dist('start', o_)
            out['dist%d' % k] = sorted(((e[0], e[1], e[2], p) for e, p in d.items()), key=lambda t: (t[0], t[1]))
        return out
    if name == 'implicit':
        from msdm.core.distributions import ImplicitDistribution
        d = ImplicitDistribution(lambda rng: 'heads' if rng.random() < c(F(1, 3)) else 'tails', n_samples=2, _seed=seed)
        out = dict(items=sorted(d.items()), exp=ImplicitDistribution(lambda rng: rng.random(), n_samples=2, _seed=seed).expectation(),
                   marg=sorted(d.marginalize(lambda e: e[0]).items()), sample=d.sample())
        return out
    if name in ('mdp_rollout', 'mdp_evaluate'):
        from msdm.core.mdp.policy import FunctionalPolicy
        from msdm.core.distributions import DictDistribution
        pol = FunctionalPolicy(lambda s: DictDistribution({'left': c(F(1, 2)), 'right': c(F(1, 2))}))
        rng = rnd.Random(seed)
        if name == 'mdp_rollout':
            r = pol.run_on(_mdp(c), max_steps=3, rng=rng)
            return dict(states=r.state, actions=r.action, rewards=r.reward)
        ev = pol.evaluate_on(_mdp(c), n_simulations=1, max_steps=2, rng=rng)
        return dict(iv=ev.initial_value, occ=dict(sorted(ev.state_occupancy.items())))
    if name == 'pomdp_rollout':
        from msdm.core.pomdp.policy import ValueBasedTabularPOMDPPolicy
        pomdp = _pomdp(c)

        class Pol(ValueBasedTabularPOMDPPolicy):
            def action_value(self, b, a):
                return 0
        traj = Pol(pomdp).run_on(pomdp, max_steps=2, rng=rnd.Random(seed))
        return dict(states=[t.state for t in traj], actions=[t.action for t in traj], obs=[t.observation for t in traj])
    raise ValueError(name)


def plain(x):
    """JSON-able canonical form (floats rounded) for comparing real runs across processes"""
    if isinstance(x, dict):
        return {repr(k): plain(v) for k, v in sorted(x.items(), key=lambda kv: repr(kv[0])) if k != 'learner'}
    if isinstance(x, (list, tuple)):
        return [plain(v) for v in x]
    if isinstance(x, bool) or x is None or isinstance(x, str):
        return x
    try:
        return round(float(x), 9)
    except (TypeError, ValueError):
        return repr(x)


if __name__ == '__main__':
    import sys, json
    name, seed = sys.argv[1], int(sys.argv[2])
    gs = int(sys.argv[3]) if len(sys.argv) > 3 else 0
    import numpy
    _real_random.seed(gs); numpy.random.seed(gs)
    use_torch = name in ('bpi', 'gradientascent')
    if use_torch:
        import torch
        torch.manual_seed(gs)
    state = lambda: (_real_random.getstate(), numpy.random.get_state()[1].tolist(), torch.random.get_rng_state().tolist() if use_torch else None)
    before = state()
    out = run(name, seed, float)
    if name in ('bpi', 'gradientascent'):
        out = dict(seed_used=out['seed_used'])
    after = state()
    # the same problem built and run a second time in this process: equal seeds, equal results
    out2 = run(name, seed, float)
    if name in ('bpi', 'gradientascent'):
        out2 = dict(seed_used=out2['seed_used'])
    print(json.dumps(dict(out=plain(out), out2=plain(out2), undisturbed=[b == a for b, a in zip(before, after)])))
