"""C10 — TD learners' Q-tables are exactly their update rule applied to the experience."""
from fractions import Fraction as F

from symx import core, stubs
from symx.core import is_sym, ssum
from symx.stubs import facade, shadow
from harness.common import Shape, proper_shapes, build_mdp, sym_rewards

PROPERTY = 'C10'
FUNCTIONS = [
    'msdm.algorithms.tdlearning.TemporalDifferenceLearning.{train_on,_initial_q_table,_create_policy,_init_random_number_generator}',
    'msdm.algorithms.tdlearning.{QLearning,SARSA,ExpectedSARSA,DoubleQLearning}._training',
    'msdm.algorithms.tdlearning.{epsilon_softmax_sample,epsilon_softmax_dist,argmax}', 'msdm.core.utils.dictutils.defaultdict2',
    'msdm.core.distributions.softmaxdistribution.SoftmaxDistribution', 'msdm.core.distributions.distributions.FiniteDistribution.{sample,__or__,__mul__}',
]
ASSUMPTIONS = [
    'random.Random(seed) is a nondeterministic stream: every sampled action / successor / coin is a solver-chosen outcome, so all '
    'experienced histories within the bound are explored', 'math.exp is an uninterpreted positive monotone function (softmax temperature 1)',
    'step size from the menu {0, 1/10, 1/2, 1} in the fold-equality harness (it multiplies Q terms); symbolic in [0,1] in the range harness',
    'rewards, initial Q values and the exploration rate are symbolic',
]
OUTSIDE = ['more than 2 episodes or 3 steps per episode (longer histories are cut and counted)', 'convergence of the learners', 'rounding']

H, Q1, Q3 = F(1, 2), F(1, 4), F(3, 4)


def shapes():
    out = []
    out.append(Shape(2, 2, [[0, 1], [0]], {(0, 0): {0: H, 1: H}, (0, 1): {1: 1}, (1, 0): {1: 1}}, absorb=[1], gamma=F(9, 10), name='two'))
    out.append(Shape(2, 2, [[0, 1], [0]], {(0, 0): {0: H, 1: H}, (0, 1): {1: 1}, (1, 0): {1: 1}}, absorb=[1], gamma=F(1), s0={0: H, 1: H},
                     name='two-absorbing-start'))
    out.append(Shape(3, 2, [[0, 1], [1], [0, 1]], {(0, 0): {1: 1}, (0, 1): {0: Q1, 2: Q3}, (1, 1): {2: 1}, (2, 0): {2: 1}, (2, 1): {2: 1}},
                     absorb=[2], gamma=F(9, 10), name='three-state-dependent-actions'))
    return out


SHAPES = shapes()
LEARNERS = ['QLearning', 'SARSA', 'ExpectedSARSA', 'DoubleQLearning']


def bounds(tier):
    return dict(skeletons=[s.name for s in SHAPES], learners=LEARNERS, episodes='1..2', steps_per_episode='<= 2 (quick) / 3 (thorough)',
                step_size=['0', '1/10', '1/2', '1'], softmax_temp=[0, 1], initial_q=['symbolic constant', 'symbolic per state-action'])


class _Cut(BaseException):
    pass


def _mk_listener(log, L, draws, stop_after=None, cap=None):
    from msdm.algorithms.tdlearning import TDLearningEventListener

    class Listener(TDLearningEventListener):
        def __init__(self):
            self.n = 0

        def end_of_timestep(self, lv):
            self.n += 1
            if self.n > L:
                raise core.PathCut('episode longer than the step bound')
            log.append(dict(s=lv['s'], a=lv['a'], r=lv['r'], ns=lv['ns'], na=lv.get('na'), ndraws=len(draws), td_error=lv.get('td_error')))
            if stop_after is not None and self.n >= stop_after:
                cap['q'] = lv.get('q')
                raise _Cut()      # the harness stops the learner here and inspects the table it holds

        def end_of_episode(self, lv):
            self.n = 0
            log.append('end')

        def results(self):
            return None
    return Listener


def _eps_softmax_pi(sx, qrow, eps, temp):
    """the behaviour policy epsilon-softmax(q) written independently"""
    acts = list(qrow)
    if temp == 0:
        m = None
        for a in acts:
            m = qrow[a] if m is None else core.smax2(m, qrow[a])
        G = [a for a in acts if bool(qrow[a] == m)]
        base = {a: (F(1, len(G)) if a in G else 0) for a in acts}
    else:
        sc = {a: qrow[a] / temp for a in acts}
        m = None
        for a in acts:
            m = sc[a] if m is None else core.smax2(m, sc[a])
        e = {a: core.sym_exp(sc[a] - m) for a in acts}
        Z = ssum(e.values())
        base = {a: e[a] / Z for a in acts}
    return {a: eps * F(1, len(acts)) + (1 - eps) * base[a] for a in acts}


def fold(sx, shape, learner, alpha, temp, episodes, L, qkind='const', eps_zero=False, stop_after=None):
    sh = SHAPES[shape]
    Ls, AL = sh.slabels, sh.alabels
    g = sx.const(sh.gamma)
    rew = sym_rewards(sx, sh, -1, 1)
    al = sx.const(F(alpha))
    eps = 0 if eps_zero else sx.real('rand_choose', 0, 1)
    if qkind == 'const':
        q0v = sx.real('q0', -3, 3)
        q0 = lambda s, a: q0v
        init_arg = q0v if not sx.sym else None
    else:
        tab = {(s, a): sx.real(f"q0_{s}_{a}", -3, 3) for s in range(sh.S) for a in sh.avail[s]}
        q0 = lambda s, a: tab[(Ls.index(s), AL.index(a))]
    import msdm.algorithms.tdlearning as td
    cls = getattr(td, learner)
    log, draws = [], []
    with facade(sx), shadow(sx, ['msdm.algorithms.tdlearning']):
        # record the uniform draws of the learner's private generator (needed to read DoubleQ's coin)
        orig_random = stubs.NondetStream.random

        def rec_random(self_):
            v = orig_random(self_)
            draws.append(v)
            return v
        stubs.NondetStream.random = rec_random
        sx.on_exit(lambda: setattr(stubs.NondetStream, 'random', orig_random))
        mdp = build_mdp(sx, sh, rew)
        learner_obj = cls(episodes=episodes, step_size=al, rand_choose=eps, softmax_temp=temp, initial_q=q0, seed=11,
                          event_listener_class=_mk_listener(log, L, draws, stop_after, cap := {}))
        res = None
        try:
            with sx.must_not_raise('train_on'):
                res = learner_obj.train_on(mdp)
        except _Cut:
            pass
        # ---- experience validity
        steps = [e for e in log if e != 'end']
        prev = None
        for k, e in enumerate(log):
            if e == 'end':
                prev = None
                continue
            s, a, ns = Ls.index(e['s']), AL.index(e['a']), Ls.index(e['ns'])
            sx.prove(s not in sh.absorb, f'step-from-non-absorbing[{k}]')
            sx.prove(a in sh.avail[s], f'action-available[{k}]')
            sx.prove(sh.rows[(s, a)].get(ns, 0) > 0, f'real-transition[{k}]')
            sx.prove_eq(e['r'], rew[(s, a, ns)], f'model-reward[{k}]', tol=0)
            if prev is not None:
                sx.prove(prev['ns'] == e['s'], f'steps-chain[{k}]')
            prev = e
        # ---- fold the published rule over the experience
        def init_row(s):
            return {AL[a]: (0 if s in sh.absorb else q0(Ls[s], AL[a])) for a in sh.avail[s]}
        if learner == 'DoubleQLearning':
            Q1t, Q2t = {}, {}

            def row(Qt, s):
                if s not in Qt:
                    Qt[s] = init_row(s)
                return Qt[s]
            last = 0
            for e in steps:
                s, a, ns = Ls.index(e['s']), e['a'], Ls.index(e['ns'])
                coin = draws[e['ndraws'] - 1]      # the last uniform draw of the step decides which table is updated
                upd, other = (Q1t, Q2t) if bool(coin > .5) else (Q2t, Q1t)
                nrow_u, nrow_o = row(upd, ns), row(other, ns)
                row(upd, s)
                row(other, s)
                m = None
                for b in nrow_u:
                    m = nrow_u[b] if m is None else core.smax2(m, nrow_u[b])
                G = [b for b in nrow_u if bool(nrow_u[b] == m)]
                # the greedy action among ties is the learner's choice; its value under the OTHER table must be used
                cands = [e['r'] + g * nrow_o[b] - upd[s][a] for b in G]
                # which of several tied greedy actions is used is the learner's (random) choice: its TD error must be one of them
                tde = e['td_error']
                sx.prove(core.sany([sx.close(tde, c) for c in cands]), 'double-q-td-error-uses-a-greedy-action-of-the-updated-table')
                upd[s][a] = upd[s][a] + al * tde
            want = {}
            for s in set(Q1t) | set(Q2t):
                want[s] = {a: row(Q1t, s)[a] * sx.const(H) + row(Q2t, s)[a] * sx.const(H) for a in init_row(s)}
        else:
            Qt = {}

            def rowq(s):
                if s not in Qt:
                    Qt[s] = init_row(s)
                return Qt[s]
            for e in steps:
                s, a, ns = Ls.index(e['s']), e['a'], Ls.index(e['ns'])
                nrow = rowq(ns)
                rowq(s)
                if learner == 'QLearning':
                    m = None
                    for b in nrow:
                        m = nrow[b] if m is None else core.smax2(m, nrow[b])
                    target = m
                elif learner == 'SARSA':
                    target = nrow[e['na']]
                else:
                    pi = _eps_softmax_pi(sx, nrow, eps, temp)
                    target = ssum(pi[b] * nrow[b] for b in nrow)
                Qt[s][a] = Qt[s][a] + al * (e['r'] + g * target - Qt[s][a])
            want = Qt
        got = res.q_values if res is not None else cap['q']
        for s, wrow in want.items():
            sx.prove(Ls[s] in got, f'visited-state-in-table[{s}]')
            if Ls[s] not in got:
                continue
            for a, wv in wrow.items():
                sx.prove_eq(got[Ls[s]][a], wv, f'q-equals-folded-rule[{s},{AL.index(a)}]', tol=F(1, 10**9))
        # absorbing states are fixed at 0 in the returned table
        for sl in list(got.keys()):
            s = Ls.index(sl)
            if s in sh.absorb:
                for a, v in got[sl].items():
                    sx.prove_eq(v, 0, f'absorbing-state-q-is-0[{s},{AL.index(a)}]', tol=0)
        if res is None:
            return
        # ---- returned policy: uniform over exactly the max-Q actions of visited states, over all available actions elsewhere
        visited = set(Ls.index(k) for k in got.keys())
        for s in range(sh.S):
            d = dict(res.policy.action_dist(Ls[s]).items())
            if s in visited:
                rowv = got[Ls[s]]
                m = None
                for b in rowv:
                    m = rowv[b] if m is None else core.smax2(m, rowv[b])
                G = [b for b in rowv if bool(rowv[b] == m)]
            else:
                G = [AL[a] for a in sh.avail[s]]
            sx.prove(set(d) == set(G), f'policy-support[{s}]')
            for b in G:
                sx.prove_eq(d.get(b, 0), F(1, len(G)), f'policy-uniform[{s},{AL.index(b)}]')
        sx.prove(not stubs.TAINT.reads, 'global-generator-not-consulted')
        sx.observe('nsteps', len(steps))


def retrain(sx, shape, learner):
    """one learner object trained twice: each result's policy is greedy for ITS OWN Q-table, whenever it is queried"""
    sh = SHAPES[shape]
    Ls, AL = sh.slabels, sh.alabels
    rewA = sym_rewards(sx, sh, -1, 1, tag='rA')
    rewB = sym_rewards(sx, sh, -1, 1, tag='rB')
    import msdm.algorithms.tdlearning as td
    cls = getattr(td, learner)
    log = []
    with facade(sx), shadow(sx, ['msdm.algorithms.tdlearning']):
        mA, mB = build_mdp(sx, sh, rewA), build_mdp(sx, sh, rewB)
        lrn = cls(episodes=1, step_size=sx.const(F(1, 2)), rand_choose=sx.const(F(1, 10)), softmax_temp=0, initial_q=0.0, seed=5,
                  event_listener_class=_mk_listener(log, 1, []))
        r1 = lrn.train_on(mA)
        first = {s: dict(r1.policy.action_dist(Ls[s]).items()) for s in range(sh.S)}     # queried between the two trainings
        r2 = lrn.train_on(mB)
        for tag, res, early in (('second', r2, None), ('first', r1, first)):
            for s in range(sh.S):
                d = dict(res.policy.action_dist(Ls[s]).items())
                if Ls[s] in res.q_values:
                    rowv = res.q_values[Ls[s]]
                    m = None
                    for b in rowv:
                        m = rowv[b] if m is None else core.smax2(m, rowv[b])
                    G = [b for b in rowv if bool(rowv[b] == m)]
                else:
                    G = [AL[a] for a in sh.avail[s]]
                sx.prove(set(d) == set(G), f'{tag}-result-policy-greedy-for-its-own-table[{s}]')


def q_range(sx, shape, learner, episodes, L):
    """with a step size in [0,1] every Q-value stays within the interval spanned by the initial value and the discounted reward bounds"""
    sh = SHAPES[shape].with_(gamma=F(9, 10))
    Ls, AL = sh.slabels, sh.alabels
    g = sh.gamma
    rew = sym_rewards(sx, sh, -1, 1)
    al = sx.real('step_size', 0, 1)
    q0v = sx.real('q0', -20, 20)
    import msdm.algorithms.tdlearning as td
    cls = getattr(td, learner)
    log = []
    with facade(sx), shadow(sx, ['msdm.algorithms.tdlearning']):
        mdp = build_mdp(sx, sh, rew)
        res = cls(episodes=episodes, step_size=al, rand_choose=sx.const(F(1, 10)), softmax_temp=0, initial_q=lambda s, a: q0v, seed=3,
                  event_listener_class=_mk_listener(log, L, [])).train_on(mdp)
        lo = core.smin2(q0v, F(-1) / (1 - g))
        lo = core.smin2(lo, 0)
        hi = core.smax2(q0v, F(1) / (1 - g))
        hi = core.smax2(hi, 0)
        for sl, row in res.q_values.items():
            for a, v in row.items():
                sx.prove_le(lo, v, f'q-lower-bound[{Ls.index(sl)},{AL.index(a)}]', tol=F(1, 10**8))
                sx.prove_le(v, hi, f'q-upper-bound[{Ls.index(sl)},{AL.index(a)}]', tol=F(1, 10**8))


def jobs(tier):
    quick = tier == 'quick'
    o = dict(timeout_ms=60000, budget_s=1500, max_paths=60000)
    for i, sh in enumerate(SHAPES):
        for ln in LEARNERS:
            heavy = ln == 'DoubleQLearning'
            if quick:
                plans = [('1/2', 1, 2), ('1/2', 2, 1)]
                if heavy and i == 2:
                    plans = [('1/2', 1, 2)]
            else:
                plans = [(al, 1, 3) for al in ['0', '1/10', '1/2', '1']] + [('1/2', 2, 2), ('1/10', 2, 1)]
                if heavy:
                    plans.remove(('1/2', 2, 2))      # (double Q-learning: two tables and a coin per step - more than 60000 paths per case)
            for alpha, ep, L in plans:
                yield ('fold', dict(shape=i, learner=ln, alpha=alpha, temp=0, episodes=ep, L=L), dict(o, cost=10 if heavy else 3))
            yield ('fold', dict(shape=i, learner=ln, alpha='1/10', temp=0, episodes=1, L=1 if quick else 2, qkind='table'), o)
            if i == 0:
                yield ('fold', dict(shape=i, learner=ln, alpha='1', temp=0, episodes=1, L=2, eps_zero=True), o)
                yield ('fold', dict(shape=i, learner=ln, alpha='1/2', temp=1, episodes=1, L=1 if (quick or ln == 'ExpectedSARSA') else 2), dict(o, cost=5))      # (expected SARSA at temperature 1, two steps: products of Exp terms the solver times out on)
            yield ('q_range', dict(shape=i, learner=ln, episodes=1, L=1 if quick else 2), o)
            if i in (0, 2):
                yield ('retrain', dict(shape=i, learner=ln), o)
            if i in (0, 2) and ln in ('ExpectedSARSA', 'QLearning', 'SARSA'):
                yield ('fold', dict(shape=i, learner=ln, alpha='1/2', temp=1, episodes=1, L=1, qkind='table', stop_after=1), dict(o, cost=8))
