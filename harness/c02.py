"""C02 — exact policy evaluation solves the Bellman expectation equations."""
from fractions import Fraction as F
import itertools

from symx import core
from symx.core import is_sym, ssum
from symx.stubs import facade
from harness.common import (Shape, curated_shapes, proper_shapes, generated_shapes, build_mdp, sym_rewards, implicit_absorbing)

PROPERTY = 'C02'
FUNCTIONS = [
    'msdm.core.mdp.tabularpolicy.TabularPolicy.{evaluate_on,_evaluate_on_discounted,_evaluate_on_undiscounted,action_dist}',
    'msdm.core.mdp.policy.Policy.to_tabular', 'msdm.core.mdp.policy.FunctionalPolicy.action_dist',
    'msdm.core.mdp.tabularmdp.TabularMarkovDecisionProcess.{transition_matrix,state_action_reward_matrix,action_matrix,'
    'absorbing_state_vec,initial_state_vec,state_list,action_list}', 'msdm.core.mdp.tables.*', 'msdm.core.table.*',
]
ASSUMPTIONS = [
    'numpy facade; np.linalg.inv of a concrete matrix is exact rational Gauss-Jordan, of a symbolic matrix fresh unknowns X with A X = I',
    'floyd_warshall on concrete adjacency calls scipy; warnings are no-ops',
    'transition probabilities, discount and policy rows from rational menus; rewards symbolic; one NRA variant with a symbolic policy probability',
]
OUTSIDE = ['state counts above the bound', 'policies outside the row menu (except the one symbolic probability)', 'rounding / ill-conditioning near gamma -> 1']

SHAPES = curated_shapes()
NCUR = len(SHAPES)
SHAPES = SHAPES + generated_shapes(80)      # thorough tier only
PROPER = proper_shapes()
H, Q1, Q3 = F(1, 2), F(1, 4), F(3, 4)


def bounds(tier):
    return dict(shapes=[s.name for s in SHAPES[:NCUR]] + ([f'{len(SHAPES) - NCUR} generated skeletons (2-4 states, 1-3 actions)'] if tier != 'quick' else []) + [s.name + '(g=1)' for s in PROPER] + ['undisc-trap shapes'],
                gammas=['1/2', '9/10', '1'], policy_rows='point masses, 1/2-1/2, 1/4-3/4 (incl. zero mass on available actions)',
                rewards='[-1,1] symbolic ([-1,0] at gamma=1)')


def row_menu(n):
    if n == 1:
        return [[F(1)]]
    if n == 2:
        return [[F(1), F(0)], [F(0), F(1)], [H, H], [Q1, Q3]]
    if n == 3:
        return [[F(1), F(0), F(0)], [F(0), F(0), F(1)], [F(1, 3), F(1, 3), F(1, 3)], [H, Q1, Q1], [F(0), Q3, Q1]]
    raise ValueError


def policies(sh, tier):
    per_state = [row_menu(len(sh.avail[s])) for s in range(sh.S)]
    combos = list(itertools.product(*[range(len(m)) for m in per_state]))
    if tier == 'quick' and len(combos) > 6:
        # a covering sub-family: every row option appears for every state at least once
        pick = []
        for k in range(max(len(m) for m in per_state)):
            pick.append(tuple(min(k, len(m) - 1) for m in per_state))
        pick.append(tuple((i + s) % len(m) for s, (i, m) in enumerate(zip(range(10), per_state))))
        combos = list(dict.fromkeys(pick))
    return combos


def _policy_matrix(sx, sh, combo):
    pi = {}
    for s in range(sh.S):
        row = row_menu(len(sh.avail[s]))[combo[s]]
        pi[s] = {a: sx.const(row[k]) for k, a in enumerate(sh.avail[s])}
    return pi


def _mk_policy(sx, sh, pi, via):
    from msdm.core.mdp import TabularPolicy
    from msdm.core.mdp.policy import FunctionalPolicy
    from msdm.core.distributions import DictDistribution
    import numpy as rnp
    L, AL = sh.slabels, sh.alabels
    if via == 'functional':
        # actions of probability 0 may be missing from the dict
        fp = FunctionalPolicy(lambda s: DictDistribution({AL[a]: p for a, p in pi[L.index(s)].items()
                                                          if is_sym(p) or p != 0 or a == sh.avail[L.index(s)][0]}))
        return fp.to_tabular(tuple(L), tuple(AL))
    so, ao = list(range(sh.S)), list(range(sh.A))
    if via == 'permuted':
        # the policy table lists the same states and actions in ANOTHER order than the model does (reversed)
        so, ao = so[::-1], ao[::-1]
    data = [[pi[s].get(a, 0) for a in ao] for s in so]
    if sx.sym:
        from symx.symnp import SymArray
        data = SymArray(data)
    else:
        data = rnp.array(data, dtype=float)
    return TabularPolicy.from_state_action_lists(state_list=tuple(L[s] for s in so), action_list=tuple(AL[a] for a in ao), data=data)


def _expectation_oracle(sx, sh, rew, absorbing, pi, g):
    """fresh W, Q, D from the Bellman expectation / occupancy equations (absorbing states worth 0)"""
    c = sx.c
    W = {s: sx.fresh(f"W{s}") for s in range(sh.S)}
    D = {s: sx.fresh(f"D{s}") for s in range(sh.S)}
    Q = {}
    for s in range(sh.S):
        for a in sh.avail[s]:
            Q[(s, a)] = ssum(sx.const(p) * (rew[(s, a, ns)] + sx.const(g) * W[ns]) for ns, p in sh.rows[(s, a)].items() if p > 0)
        if s in absorbing or not sh.avail[s]:
            c.add(W[s].z == 0)
        else:
            c.add(W[s].z == core.toz(ssum(pi[s][a] * Q[(s, a)] for a in sh.avail[s])))
    for z in range(sh.S):
        inflow = ssum(pi[s][a] * sx.const(sh.rows[(s, a)].get(z, 0)) * D[s]
                      for s in range(sh.S) if s not in absorbing for a in sh.avail[s] if sh.rows[(s, a)].get(z, 0) != 0)
        c.add(D[z].z == core.toz(sx.const(sh.s0.get(z, 0)) + sx.const(g) * inflow))
    c.model = None
    return W, Q, D


def eval_discounted(sx, shape, gamma, combo, via='table', calls=1):
    sh = SHAPES[shape].with_(gamma=F(gamma))
    g = sh.gamma
    rew = sym_rewards(sx, sh, -1, 1)
    L, AL = sh.slabels, sh.alabels
    with facade(sx):
        mdp = build_mdp(sx, sh, rew)
        pi = _policy_matrix(sx, sh, combo)
        pol = _mk_policy(sx, sh, pi, via)
        with sx.must_not_raise('evaluate'):
            for _ in range(calls):
                res = pol.evaluate_on(mdp)
        absorbing = implicit_absorbing(sh, rew)
        W, Q, D = _expectation_oracle(sx, sh, rew, absorbing, pi, g)
        for s in range(sh.S):
            sx.prove_eq(res.state_value[L[s]], W[s], f'state-value[{s}]', tol=F(1, 10**7))
            sx.prove_eq(res.state_occupancy[L[s]], D[s], f'occupancy[{s}]', tol=F(1, 10**7))
            for a in range(sh.A):
                q = res.action_value[L[s], AL[a]]
                if a not in sh.avail[s]:
                    sx.prove(core._is_inf(q) and q < 0, f'unavailable-neg-inf[{s},{a}]')
                elif s not in absorbing:
                    sx.prove_eq(q, Q[(s, a)], f'action-value[{s},{a}]', tol=F(1, 10**7))
        sx.prove_eq(res.initial_value, ssum(sx.const(p) * W[s] for s, p in sh.s0.items()), 'initial-value', tol=F(1, 10**7))
        for s in range(sh.S):
            row = dict(pol.action_dist(L[s]).items())
            for a in range(sh.A):
                sx.prove_eq(row.get(AL[a], 0), pi[s].get(a, 0), f'policy-row[{s},{a}]')
        sx.observe('V', [res.state_value[L[s]] for s in range(sh.S)])
        sx.observe('D', [res.state_occupancy[L[s]] for s in range(sh.S)])


def eval_symbolic_policy(sx, shape, gamma):
    """NRA variant: pi(a0|s0) = p symbolic in [0,1] (everything else from menus, rewards from a menu)"""
    sh = SHAPES[shape].with_(gamma=F(gamma))
    g = sh.gamma
    s_star = next(s for s in range(sh.S) if len(sh.avail[s]) == 2)
    p = sx.real('p', 0, 1)
    menu = [F(1), F(-1, 2), F(1, 4), F(-1), F(3, 4), F(-1, 4), F(1, 2), F(0), F(-3, 4), F(1, 3)]
    rew = {}
    k = 0
    for s in range(sh.S):
        for a in sh.avail[s]:
            for ns in sh.rows[(s, a)]:
                rew[(s, a, ns)] = sx.const(menu[k % len(menu)])
                k += 1
    L, AL = sh.slabels, sh.alabels
    with facade(sx):
        mdp = build_mdp(sx, sh, rew)
        pi = {}
        for s in range(sh.S):
            if s == s_star:
                pi[s] = {sh.avail[s][0]: p, sh.avail[s][1]: 1 - p}
            else:
                n = len(sh.avail[s])
                pi[s] = {a: sx.const(F(1, n)) for a in sh.avail[s]}
        pol = _mk_policy(sx, sh, pi, 'table')
        res = pol.evaluate_on(mdp)
        absorbing = implicit_absorbing(sh, rew)
        W, Q, D = _expectation_oracle(sx, sh, rew, absorbing, pi, g)
        for s in range(sh.S):
            sx.prove_eq(res.state_value[L[s]], W[s], f'nra-state-value[{s}]', tol=F(1, 10**6))
        sx.prove_eq(res.initial_value, ssum(sx.const(pp) * W[s] for s, pp in sh.s0.items()), 'nra-initial-value', tol=F(1, 10**6))


# ---- undiscounted, non-positive rewards
def undisc_shapes():
    out = list(proper_shapes())
    # a trap {1,2} reachable from 0 (closed non-absorbing class), goal 3
    out.append(Shape(4, 2, [[0, 1], [0], [0, 1], [0]],
                     {(0, 0): {1: H, 3: H}, (0, 1): {3: 1}, (1, 0): {2: 1}, (2, 0): {1: 1}, (2, 1): {2: H, 1: H}, (3, 0): {3: 1}},
                     absorb=[3], gamma=F(1), name='trap-4'))
    # self-loop trap at 1, start mass on both
    out.append(Shape(3, 2, [[0, 1], [0], [0]], {(0, 0): {1: Q1, 2: Q3}, (0, 1): {2: 1}, (1, 0): {1: 1}, (2, 0): {2: 1}},
                     absorb=[2], s0={0: H, 1: H}, gamma=F(1), name='selfloop-trap'))
    # zero-reward idle loop at 1 kept non-absorbing by an unused exit action; 0 is transient and cannot reach the goal under "idle"
    out.append(Shape(3, 2, [[0], [0, 1], [0]], {(0, 0): {1: 1}, (1, 0): {1: 1}, (1, 1): {2: 1}, (2, 0): {2: 1}},
                     absorb=[2], gamma=F(1), name='idle-loop'))
    out.append(Shape(4, 2, [[0, 1], [0, 1], [0, 1], [0]], {(0, 0): {1: H, 2: H}, (0, 1): {3: 1}, (1, 0): {1: 1}, (1, 1): {3: 1},
                                                          (2, 0): {1: 1}, (2, 1): {2: Q1, 3: Q3}, (3, 0): {3: 1}},
                     absorb=[3], gamma=F(1), s0={0: H, 2: H}, name='idle-loop-4'))
    return out


UNDISC = undisc_shapes()


def _closed_classes(sh, pi, absorbing):
    """closed communicating classes of non-absorbing states of the policy's chain (concrete structure)"""
    n = sh.S
    succ = {s: set() for s in range(n)}
    for s in range(n):
        if s in absorbing:
            continue
        for a in sh.avail[s]:
            if pi[s][a] != 0:
                succ[s] |= set(sh.succ(s, a))

    def reach(s):
        seen, st = {s}, [s]
        while st:
            x = st.pop()
            for y in succ[x]:
                if y not in seen:
                    seen.add(y)
                    st.append(y)
        return seen
    R = {s: reach(s) for s in range(n)}
    classes = []
    for s in range(n):
        if s in absorbing:
            continue
        cls = frozenset(t for t in R[s] if s in R[t])
        closed = all(R[t] <= set(cls) for t in cls)
        if closed and not (set(cls) & set(absorbing)) and cls not in classes:
            classes.append(cls)
    return classes, R


def eval_undiscounted(sx, shape, combo, calls=1, via='table'):
    """calls=2: the same policy object is evaluated twice on the same MDP object; the second answer is checked"""
    sh = UNDISC[shape]
    rew = sym_rewards(sx, sh, -1, 0)
    L, AL = sh.slabels, sh.alabels
    with facade(sx):
        mdp = build_mdp(sx, sh, rew)
        pi = _policy_matrix(sx, sh, combo)
        pol = _mk_policy(sx, sh, pi, via)
        with sx.must_not_raise('evaluate'):
            for _ in range(calls):
                res = pol.evaluate_on(mdp)
        absorbing = implicit_absorbing(sh, rew)
        # menu rows are concrete: recover plain numbers for the structural analysis
        pic = {s: {a: (0 if (not is_sym(v) and v == 0) else 1) for a, v in pi[s].items()} for s in pi}
        classes, R = _closed_classes(sh, pic, absorbing)
        # a closed class pays negative reward iff some state in it has negative expected one-step reward
        neg = {}
        for cls in classes:
            conds = []
            for s in cls:
                r = ssum(pi[s][a] * ssum(sx.const(p) * rew[(s, a, ns)] for ns, p in sh.rows[(s, a)].items()) for a in sh.avail[s])
                conds.append(r < 0)
            neg[cls] = bool(core.sany(conds))
        inclass = set().union(*classes) if classes else set()
        minus_inf = {s for s in range(sh.S) if s not in absorbing and any(neg[c] and (R[s] & set(c)) for c in classes)}
        # finite values: expected total reward on the transient part (zero-reward closed classes are worth 0)
        c = sx.c
        W = {s: sx.fresh(f"W{s}") for s in range(sh.S)}
        for s in range(sh.S):
            if s in absorbing or s in inclass or s in minus_inf:
                c.add(W[s].z == 0)
            else:
                c.add(W[s].z == core.toz(ssum(pi[s][a] * ssum(sx.const(p) * (rew[(s, a, ns)] + W[ns])
                                                              for ns, p in sh.rows[(s, a)].items() if p > 0) for a in sh.avail[s])))
        c.model = None
        for s in range(sh.S):
            v = res.state_value[L[s]]
            if s in minus_inf:
                sx.prove(core._is_inf(v) and v < 0, f'minus-inf-iff-negative-class-reachable[{s}]')
            else:
                sx.prove(not core._is_inf(v), f'finite-otherwise[{s}]')
                if not core._is_inf(v):
                    sx.prove_eq(v, W[s], f'expected-total-reward[{s}]', tol=F(1, 10**7))
        # action values (also of actions the policy never takes): one-step look-ahead of the state values, minus infinity exactly
        # when some positive-probability successor is worth minus infinity; unavailable actions are minus infinity
        for s in range(sh.S):
            if s in absorbing:
                continue
            for a in range(sh.A):
                q = res.action_value[L[s], AL[a]]
                if a not in sh.avail[s]:
                    sx.prove(core._is_inf(q) and q < 0, f'unavailable-neg-inf[{s},{a}]')
                    continue
                succ = [ns for ns, p in sh.rows[(s, a)].items() if p > 0]
                if any(ns in minus_inf for ns in succ):
                    sx.prove(core._is_inf(q) and q < 0, f'action-value-minus-inf-through-costly-class[{s},{a}]')
                else:
                    sx.prove(not core._is_inf(q), f'action-value-finite[{s},{a}]')
                    if not core._is_inf(q):
                        want = ssum(sx.const(sh.rows[(s, a)][ns]) * (rew[(s, a, ns)] + W[ns]) for ns in succ)
                        sx.prove_eq(q, want, f'action-value-is-lookahead-of-state-values[{s},{a}]', tol=F(1, 10**7))
        sx.observe('V', [res.state_value[L[s]] for s in range(sh.S)])


def eval_undiscounted_symbolic(sx):
    """SYMBOLIC chain probabilities at discount 1: the policy enters state 1 with probability p, state 1 pays r1 <= 0 per step and
    leaks to the goal with probability q.  Any q > 0, however small, makes every value finite (r1/q ...); q = 0 makes state 1 a
    closed class: minus infinity there - and at state 0 for any p > 0, however small - iff r1 < 0."""
    p = sx.real('p_enter', 0, 1)
    q = sx.real('q_leak', 0, 1)
    r0a, r0b, r1 = sx.real('r_0_0', -1, 0), sx.real('r_0_1', -1, 0), sx.real('r_1_0', -1, 0)
    c = sx.const
    rows = {(0, 0): {1: c(1)}, (0, 1): {2: c(1)}, (1, 0): {1: 1 - q, 2: q}, (2, 0): {2: c(1)}}
    rw = {(0, 0): r0a, (0, 1): r0b, (1, 0): r1, (2, 0): 0}
    avail = {0: [0, 1], 1: [0], 2: [0]}
    from msdm.core.mdp import QuickTabularMDP, TabularPolicy
    from msdm.core.distributions import DictDistribution
    import numpy as rnp
    with facade(sx):
        mdp = QuickTabularMDP(next_state_dist=lambda s, a: DictDistribution(rows[(s, a)]), reward=lambda s, a, ns: rw[(s, a)],
                              actions=lambda s: tuple(avail[s]), initial_state_dist=DictDistribution({0: c(1)}),
                              is_absorbing=lambda s: s == 2, discount_rate=1.0)
        mdp._state_list = (0, 1, 2)
        mdp._action_list = (0, 1)
        data = [[p, 1 - p], [c(1), c(0)], [c(1), c(0)]]
        if sx.sym:
            from symx.symnp import SymArray
            data = SymArray(data)
        else:
            data = rnp.array(data, dtype=float)
        pol = TabularPolicy.from_state_action_lists(state_list=(0, 1, 2), action_list=(0, 1), data=data)
        with sx.must_not_raise('evaluate'):
            res = pol.evaluate_on(mdp)
        v0, v1 = res.state_value[0], res.state_value[1]
        leaks = bool(q > 0)
        enters = bool(p > 0)
        costly = bool(r1 < 0)
        if leaks:
            sx.prove(not core._is_inf(v1), 'leaky-loop-value-finite[1]')
            sx.prove(not core._is_inf(v0), 'leaky-loop-value-finite[0]')
            if not core._is_inf(v1) and not core._is_inf(v0):
                # stated multiplied through by q (the values themselves reach r1/q)
                sx.prove_eq(v1 * q, r1, 'leaky-loop-value-is-r-over-q', tol=F(1, 10**7))
                sx.prove_eq(v0 * q, p * (r0a * q + r1) + (1 - p) * r0b * q, 'value-through-the-leaky-loop[0]', tol=F(1, 10**7))
        else:
            if costly:
                sx.prove(core._is_inf(v1) and v1 < 0, 'closed-costly-class-minus-inf[1]')
                if enters:
                    sx.prove(core._is_inf(v0) and v0 < 0, 'minus-inf-for-any-positive-entry-probability[0]')
                else:
                    sx.prove_eq(v0, r0b, 'never-entered-trap-does-not-count[0]', tol=F(1, 10**7))
            else:
                sx.prove_eq(v1, 0, 'free-loop-worth-0[1]', tol=F(1, 10**7))
                sx.prove_eq(v0, p * r0a + (1 - p) * r0b, 'value-through-the-free-loop[0]', tol=F(1, 10**7))
        sx.observe('V', [v0, v1])


def jobs(tier):
    quick = tier == 'quick'
    o = dict(timeout_ms=15000, budget_s=(120 if tier == 'quick' else 600), max_paths=3000)
    if not quick:
        for i in range(NCUR, len(SHAPES)):
            for g in ['1/2', '9/10']:
                for combo in policies(SHAPES[i], 'quick'):
                    yield ('eval_discounted', dict(shape=i, gamma=g, combo=list(combo)), o)
            yield ('eval_discounted', dict(shape=i, gamma='1/2', combo=list(policies(SHAPES[i], 'quick')[-1]), via='permuted', calls=2), o)
    for i, sh in enumerate(SHAPES[:NCUR]):
        for g in ['1/2', '9/10']:
            for combo in policies(sh, tier):
                yield ('eval_discounted', dict(shape=i, gamma=g, combo=list(combo)), o)
        yield ('eval_discounted', dict(shape=i, gamma='1/2', combo=list(policies(sh, 'quick')[-1]), via='functional'), o)
        yield ('eval_discounted', dict(shape=i, gamma='1/2', combo=list(policies(sh, 'quick')[-1]), via='permuted'), o)
    # discount rates close to (but below) 1 are still discounted
    for i in [1, 2, 4]:
        for combo in policies(SHAPES[i], 'quick')[:3]:
            yield ('eval_discounted', dict(shape=i, gamma='999999/1000000', combo=list(combo)), o)
            yield ('eval_discounted', dict(shape=i, gamma='99/100', combo=list(combo)), o)
    for i in ([1, 2, 3] if quick else [1, 2, 3, 4, 5]):
        yield ('eval_symbolic_policy', dict(shape=i, gamma='1/2'), dict(o, timeout_ms=120000))
    for i, sh in enumerate(UNDISC):
        for combo in policies(sh, tier):
            yield ('eval_undiscounted', dict(shape=i, combo=list(combo)), o)
        for combo in policies(sh, 'quick')[:(2 if quick else 6)]:
            yield ('eval_undiscounted', dict(shape=i, combo=list(combo), calls=2), o)
        yield ('eval_undiscounted', dict(shape=i, combo=list(policies(sh, 'quick')[-1]), via='permuted'), o)
    for i in ([1, 3] if quick else range(NCUR)):
        yield ('eval_discounted', dict(shape=i, gamma='1/2', combo=list(policies(SHAPES[i], 'quick')[-1]), calls=2), o)
    yield ('eval_undiscounted_symbolic', dict(), dict(o, timeout_ms=120000))
