"""C12 — tables index like nested dictionaries over their field domains."""
from fractions import Fraction as F
import itertools

from symx import core
from symx.core import is_sym, ssum
from symx.stubs import facade

PROPERTY = 'C12'
FUNCTIONS = [
    'msdm.core.table.tableindex.TableIndex.{_array_index,_updated_index,_index_into_fields,_index_into_domain,_pad_out_ellipses,__eq__}',
    'msdm.core.table.tableindex.domaintuple', 'msdm.core.table.table.Table.{__getitem__,get,keys,items,values,__len__,__iter__}',
    'msdm.core.table.table.{ProbabilityTable.__getitem__,TableDistribution}',
    'msdm.core.mdp.tables.{StateTable,StateActionTable,StateActionNextStateTable}.__getitem__ (StateActionIndexError)',
    'msdm.core.mdp.tabularpolicy.TabularPolicy.action_dist',
]
ASSUMPTIONS = [
    'the table data is one distinct free symbolic real per cell, so "returns exactly that cell" is proved for all data at once',
    'the discrete part (field domains from a menu of colliding hashables, key shapes) is enumerated exhaustively inside the bound; '
    'it is declared as enumeration, the solver contributes the quantification over the data',
]
OUTSIDE = ['more than 3 fields / domains larger than 4', 'subset ("domain-value") selectors inside a multi-field key', 'partial slices (rejected by design)']

DOMS = [
    ['a', 'b', 'c'],
    [0, 1, 2, 3],
    [(0, 1), (1, 0), (0,)],
    [None, 'a', 0, (0, 1)],
    [frozenset({0}), frozenset({1}), 1.5],
    [2.0, 2.5, 'x'],
    [(0, 1), 0, 1],
    ['x'],
    [('a', 'b'), 'a', 'b'],
    ['a', ('a',), 'b'],          # an element and the 1-tuple that holds it
    [1, (1,), 2],
]
FOREIGN = ['zz', 99, (9, 9), None, frozenset({7}), 3.25, ('a', 'zz'), (0, 99), ('a',), (0, 1, 2, 3)]


def bounds(tier):
    return dict(fields='1..3', domains=[repr(d) for d in DOMS], foreign_keys=[repr(k) for k in FOREIGN],
                key_shapes=['element', 'full tuple', 'partial tuple', 'nested', 'outer-key list (all orders of 1-3 keys)', 'slice', 'ellipsis'],
                exhaustive_within_bound=True)


def _cells(sx, shape, tag='x'):
    import numpy as rnp
    n = 1
    for d in shape:
        n *= d
    flat = [sx.real(f"{tag}{i}", -100, 100) for i in range(n)]
    arr = rnp.empty(shape, dtype=object)
    for i, ix in enumerate(rnp.ndindex(*shape)):
        arr[ix] = flat[i]
    if sx.sym:
        from symx.symnp import SymArray
        return arr.view(SymArray), arr
    return arr.astype(float), arr


def _is_in(k, dom):
    try:
        return k in dom
    except TypeError:
        return False


def _same_table(sx, got, doms, cells, label):
    """got is a table whose field domains are `doms` and whose cells are `cells` (object ndarray of terms)"""
    import numpy as rnp
    ok = hasattr(got, 'table_index') and [list(d) for d in got.table_index.field_domains] == [list(d) for d in doms]
    sx.prove(ok, f'{label}:domains')
    if not ok:
        return
    arr = rnp.asarray(got)
    sx.prove(tuple(arr.shape) == tuple(cells.shape), f'{label}:shape')
    if tuple(arr.shape) != tuple(cells.shape):
        return
    for ix in rnp.ndindex(*cells.shape):
        sx.prove_eq(arr[ix], cells[ix], f'{label}:cell', tol=0)


def _expect(sx, tb, key, doms, cells, label):
    """nested-dictionary semantics for the key classes of the statement"""
    import numpy as rnp
    n = len(doms)
    # 1. an element of the outermost domain always selects that element
    if not isinstance(key, (list, slice)) and key is not Ellipsis and _is_in(key, doms[0]):
        i = doms[0].index(key)
        want_cells, want_doms = cells[i], doms[1:]
    elif isinstance(key, tuple):
        # expand a single ellipsis to full slices
        ks = list(key)
        if any(k is Ellipsis for k in ks):
            e = [k is Ellipsis for k in ks].index(True)
            ks = ks[:e] + [slice(None)] * (n - len(ks) + 1) + ks[e + 1:]
        idx, want_doms = [], []
        for f, k in enumerate(ks):
            if isinstance(k, slice):
                idx.append(slice(None))
                want_doms.append(doms[f])
            else:
                idx.append(doms[f].index(k))
        want_doms += doms[len(ks):]
        want_cells = cells[tuple(idx)]
    elif isinstance(key, list):
        sel = [doms[0].index(k) for k in key]
        want_cells, want_doms = cells[sel], [list(key)] + doms[1:]
    else:   # full slice / bare ellipsis
        want_cells, want_doms = cells, doms
    with sx.must_not_raise(f'{label}:lookup'):
        got = tb[key]
    if isinstance(want_cells, rnp.ndarray) and want_cells.ndim > 0:
        _same_table(sx, got, want_doms, want_cells, label)
    else:
        sx.prove(not hasattr(got, 'table_index'), f'{label}:is-a-cell')
        if not hasattr(got, 'table_index'):
            sx.prove_eq(got, want_cells, f'{label}:cell', tol=0)


def _must_raise(sx, fn, label, kinds):
    try:
        r = fn()
    except kinds:
        sx.prove(True, label)
        return
    except BaseException as e:   # DomainError derives from BaseException
        if type(e).__name__ in ('DomainError',) and any(k.__name__ == 'DomainError' for k in kinds):
            sx.prove(True, label)
            return
        if isinstance(e, (core.Infeasible, core.Unknown, core.PathCut, core.Unmodelled)):
            raise
        sx.prove(False, label + f':wrong-exception:{type(e).__name__}')
        return
    sx.prove(False, label + ':returned-a-value')


def table_laws(sx, fields, cls='Table'):
    from msdm.core.table import Table, ProbabilityTable, TableIndex
    from msdm.core.table.tableindex import DomainError
    doms = [list(DOMS[f]) for f in fields]
    n = len(doms)
    shape = tuple(len(d) for d in doms)
    data, cells = _cells(sx, shape)
    names = ['f%d' % i for i in range(n)]
    with facade(sx):
        T = {'Table': Table, 'ProbabilityTable': ProbabilityTable}[cls]
        tb = T(data=data, table_index=TableIndex(field_names=names, field_domains=[tuple(d) for d in doms]))
        # dict-like interface iterates the outermost domain in order
        sx.prove(list(tb.keys()) == doms[0] and list(iter(tb)) == doms[0], 'keys-are-outer-domain-in-order')
        sx.prove(len(tb) == len(doms[0]), 'len-is-outer-domain-size')
        its = list(tb.items())
        sx.prove([k for k, _ in its] == doms[0], 'items-keys-in-order')
        is_dist_row = (cls == 'ProbabilityTable' and n == 2)
        for i, (k, v) in enumerate(its):
            if n == 1:
                sx.prove_eq(v, cells[i], f'items-value[{i}]', tol=0)
            else:
                _same_table(sx, v, doms[1:], cells[i], f'items-value[{i}]')
        vals = list(tb.values())
        sx.prove(len(vals) == len(doms[0]), 'values-one-per-outer-key')
        for i, v in enumerate(vals[:len(doms[0])]):
            if n == 1:
                sx.prove_eq(v, cells[i], f'values[{i}]', tol=0)
            else:
                _same_table(sx, v, doms[1:], cells[i], f'values[{i}]')
        # every element key / full key / nested / partial
        for combo in itertools.product(*[range(len(d)) for d in doms]):
            keyt = tuple(doms[f][i] for f, i in enumerate(combo))
            _expect(sx, tb, keyt if n > 1 else keyt[0], doms, cells, f'full-key{list(combo)}')
            if n > 1:
                _expect(sx, tb, keyt, doms, cells, f'full-tuple{list(combo)}')
            # nested single-field indexing (precedence rule applies at every level)
            cur, cur_doms, cur_cells = tb, doms, cells
            ok = True
            with sx.must_not_raise(f'nested{list(combo)}'):
                for f, i in enumerate(combo):
                    cur = cur[doms[f][i]]
                    cur_cells = cur_cells[i]
            sx.prove_eq(cur, cells[combo], f'nested-gives-same-cell{list(combo)}', tol=0)
            if n == 3:
                _expect(sx, tb, (keyt[0], keyt[1]), doms, cells, f'partial-2{list(combo)}')
                _expect(sx, tb, (keyt[0], Ellipsis, keyt[2]), doms, cells, f'k-ellipsis-k{list(combo)}')
                _expect(sx, tb, (Ellipsis, keyt[1], keyt[2]), doms, cells, f'ellipsis-k-k{list(combo)}')
            # an ellipsis that stands for zero fields (one key per field is already there), as numpy allows
            _expect(sx, tb, keyt + (Ellipsis,), doms, cells, f'full-key-then-empty-ellipsis{list(combo)}')
            _expect(sx, tb, (Ellipsis,) + keyt, doms, cells, f'empty-ellipsis-then-full-key{list(combo)}')
            if n >= 2:
                _expect(sx, tb, keyt[:1] + (Ellipsis,) + keyt[1:], doms, cells, f'empty-ellipsis-inside-full-key{list(combo)}')
            if n >= 2:
                _expect(sx, tb, (Ellipsis, keyt[-1]), doms, cells, f'ellipsis-last{list(combo)}')
                _expect(sx, tb, (keyt[0], Ellipsis), doms, cells, f'first-ellipsis{list(combo)}')
                _expect(sx, tb, (slice(None), keyt[1]), doms, cells, f'slice-k{list(combo)}')
                _expect(sx, tb, (keyt[0], slice(None)), doms, cells, f'k-slice{list(combo)}')
        # whole-table selectors
        for key, nm in ((slice(None), 'slice'), (Ellipsis, 'ellipsis'), ((slice(None),), 'slice-tuple'), ((Ellipsis,), 'ellipsis-tuple')):
            _expect(sx, tb, key, doms, cells, f'whole[{nm}]')
        # outer-key lists: every ordered selection of 1..3 distinct keys
        for r in range(1, min(3, len(doms[0])) + 1):
            for sel in itertools.permutations(range(len(doms[0])), r):
                _expect(sx, tb, [doms[0][i] for i in sel], doms, cells, f'outer-key-list{list(sel)}')
        # probability tables: rows are distributions over the row's domain with the row's entries
        if cls == 'ProbabilityTable':
            for combo in itertools.product(*[range(len(d)) for d in doms[:-1]]):
                row = tb
                for f, i in enumerate(combo):
                    row = row[doms[f][i]]
                if n >= 2:
                    sx.prove(hasattr(row, 'prob') and list(row.support) == doms[-1], f'row-is-distribution{list(combo)}')
                    if hasattr(row, 'prob'):
                        for j, e in enumerate(doms[-1]):
                            sx.prove_eq(row.prob(e), cells[combo + (j,)], f'row-prob{list(combo)}[{j}]', tol=0)
                        pit = list(row.items())
                        sx.prove([e for e, _ in pit] == doms[-1], f'row-items-events{list(combo)}')
        # foreign keys raise instead of returning a value
        for k in FOREIGN:
            if _is_in(k, doms[0]):
                continue
            if isinstance(k, tuple) and len(k) <= n and all(_is_in(x, doms[f]) for f, x in enumerate(k)):
                continue   # a legitimate multi-field key for this table
            _must_raise(sx, lambda k=k: tb[k], f'foreign-key-raises[{k!r}]', (KeyError, IndexError, DomainError))
        for k in FOREIGN[:3]:
            if not _is_in(k, doms[0]):
                _must_raise(sx, lambda k=k: tb[[doms[0][0], k]], f'foreign-in-list-raises[{k!r}]', (KeyError, IndexError, DomainError))
        if n >= 2:
            for k in FOREIGN[:4]:
                if not _is_in(k, doms[1]):
                    _must_raise(sx, lambda k=k: tb[doms[0][0]][k], f'foreign-inner-raises[{k!r}]', (KeyError, IndexError, DomainError))
        sx.prove(tb.get('definitely-foreign-key', 'dflt') == 'dflt', 'get-default-for-foreign-key')
        sx.observe('first', cells[(0,) * n])


def mdp_table_laws(sx, sdom, adom):
    """state / state-action tables and tabular policies: same cell semantics, StateActionIndexError for foreign keys"""
    from msdm.core.mdp.tables import StateTable, StateActionTable, StateActionNextStateTable, StateActionIndexError
    from msdm.core.mdp import TabularPolicy
    S, A = list(DOMS[sdom]), list(DOMS[adom])
    with facade(sx):
        d1, c1 = _cells(sx, (len(S),), 'v')
        st = StateTable.from_state_list(tuple(S), d1)
        d2, c2 = _cells(sx, (len(S), len(A)), 'q')
        sat = StateActionTable.from_state_action_lists(tuple(S), tuple(A), d2)
        d3, c3 = _cells(sx, (len(S), len(A)), 'p')
        pol = TabularPolicy.from_state_action_lists(state_list=tuple(S), action_list=tuple(A), data=d3)
        d4, c4 = _cells(sx, (len(S), len(A), len(S)), 't')
        sas = StateActionNextStateTable.from_state_action_lists(tuple(S), tuple(A), d4)
        for i, s in enumerate(S):
            sx.prove_eq(st[s], c1[i], f'state-table[{i}]', tol=0)
            ad = pol.action_dist(s)
            sx.prove(list(ad.support) == A, f'policy-row-events[{i}]')
            for j, a in enumerate(A):
                sx.prove_eq(sat[s][a], c2[i, j], f'sa-nested[{i},{j}]', tol=0)
                if not _is_in((s, a), S):   # otherwise the tuple itself is a state and selects that state's row (precedence rule)
                    sx.prove_eq(sat[s, a], c2[i, j], f'sa-tuple[{i},{j}]', tol=0)
                else:
                    _same_table(sx, sat[s, a], [A], c2[S.index((s, a))], f'sa-tuple-is-outer-element[{i},{j}]')
                sx.prove_eq(ad.prob(a), c3[i, j], f'policy-prob[{i},{j}]', tol=0)
                sx.prove_eq(dict(ad.items())[a], c3[i, j], f'policy-items[{i},{j}]', tol=0)
                for k, ns in enumerate(S):
                    if not _is_in((s, a, ns), S):
                        sx.prove_eq(sas[s, a, ns], c4[i, j, k], f'sas-tuple[{i},{j},{k}]', tol=0)
                    sx.prove_eq(sas[s][a][ns], c4[i, j, k], f'sas-nested[{i},{j},{k}]', tol=0)
        for k in FOREIGN:
            if _is_in(k, S):
                continue
            if isinstance(k, tuple) and len(k) <= 2 and _is_in(k[0], S) and (len(k) == 1 or _is_in(k[1], A)):
                continue
            _must_raise(sx, lambda k=k: st[k] if not isinstance(k, tuple) or len(k) == 1 else sat[k], f'state-table-foreign[{k!r}]', (StateActionIndexError,))
            _must_raise(sx, lambda k=k: sat[k], f'sa-table-foreign[{k!r}]', (StateActionIndexError,))
            _must_raise(sx, lambda k=k: pol[k], f'policy-foreign-state[{k!r}]', (StateActionIndexError,))
        for k in FOREIGN[:4]:
            if not _is_in(k, A):
                _must_raise(sx, lambda k=k: sat[S[0]][k], f'sa-table-foreign-action[{k!r}]', (StateActionIndexError,))
        sx.observe('v0', c1[0])


def jobs(tier):
    o = dict(timeout_ms=15000, budget_s=(120 if tier == 'quick' else 600))
    nd = len(DOMS)
    for f in range(nd):
        yield ('table_laws', dict(fields=[f]), o)
    pairs = list(itertools.product(range(nd), repeat=2))
    if tier == 'quick':
        pairs = [p for k, p in enumerate(pairs) if k % 3 == 0 or p[0] in (2, 3, 6, 8, 9, 10)]
    for p in pairs:
        yield ('table_laws', dict(fields=list(p)), o)
        yield ('table_laws', dict(fields=list(p), cls='ProbabilityTable'), o)
    triples = [(0, 1, 7), (6, 1, 0), (3, 6, 2), (8, 0, 8), (2, 2, 2), (7, 7, 7), (1, 6, 1)]
    if tier != 'quick':
        triples += [(a, b, c) for a in (2, 3, 6) for b in (0, 1, 6) for c in (0, 4, 8)]
    for t in triples:
        yield ('table_laws', dict(fields=list(t)), o)
        yield ('table_laws', dict(fields=list(t), cls='ProbabilityTable'), o)
    for s in range(nd):
        for a in ([0, 1, 6] if tier == 'quick' else range(nd)):
            yield ('mdp_table_laws', dict(sdom=s, adom=a), o)
