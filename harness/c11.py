"""C11 — finite distributions obey the probability calculus."""
from fractions import Fraction as F
import itertools

from symx import core, stubs
from symx.core import is_sym, ssum
from symx.stubs import facade, NondetStream, DetStream, det_random
from harness.common import EVENTS, simplex

PROPERTY = 'C11'
FUNCTIONS = [
    'msdm.core.distributions.distributions.FiniteDistribution.{sample,items,values,probs,score,__and__,__or__,__mul__,'
    '__rmul__,isclose,marginalize,expectation,condition,chain,normalize,joint,is_normalized}',
    'msdm.core.distributions.dictdistribution.{DictDistribution,UniformDistribution,DeterministicDistribution}.*',
    'msdm.core.distributions.softmaxdistribution.SoftmaxDistribution.__init__',
    'msdm.core.table.table.{ProbabilityTable.__getitem__,TableDistribution}', 'msdm.core.table.tableindex.TableIndex.*',
]
ASSUMPTIONS = [
    'math.exp/math.log are modelled in the log domain: log(p) is a tagged value, exp(log p + t) = p*Exp(t) with Exp an '
    'uninterpreted positive function (Exp(0)=1); no other transcendental fact is used',
    'random.Random is a nondeterministic stream (every draw a fresh solver-chosen index restricted to positive weights)',
    'kernel probabilities in chain(), likelihood weights in condition() come from rational menus when the base '
    'probabilities are symbolic (one symbolic family per product), except the 2x2 fully symbolic NRA cases',
]
OUTSIDE = ['supports larger than the bound', 'floating-point rounding', 'the bit stream of Mersenne Twister']


def bounds(tier):
    return dict(support_size='1..3' if tier == 'quick' else '1..4',
                kinds=['dict', 'dict-unnormalised', 'uniform', 'deterministic', 'softmax', 'table'],
                events='mixed hashables from ' + repr(EVENTS))


KINDS = ['dict', 'dictun', 'uniform', 'det', 'softmax', 'table']


def mk_dist(sx, kind, n, tag, ev_off=0):
    """returns (distribution object built with the repository's classes, {event: probability term})"""
    from msdm.core.distributions import DictDistribution, UniformDistribution, DeterministicDistribution, \
        SoftmaxDistribution
    evs = [EVENTS[(ev_off + i) % len(EVENTS)] for i in range(n)]
    if kind == 'dict':
        ps = simplex(sx, [f"{tag}p{i}" for i in range(n)])
        return DictDistribution(dict(zip(evs, ps))), dict(zip(evs, ps))
    if kind == 'dictun':
        ps = [sx.real(f"{tag}w{i}", 0, 4) for i in range(n)]
        return DictDistribution(dict(zip(evs, ps))), dict(zip(evs, ps))
    if kind == 'uniform':
        return UniformDistribution(tuple(evs)), {e: sx.const(F(1, n)) for e in evs}
    if kind == 'det':
        return DeterministicDistribution(evs[0]), {evs[0]: 1}
    if kind == 'softmax':
        ss = [sx.real(f"{tag}s{i}", -3, 3) for i in range(n)]
        d = SoftmaxDistribution(dict(zip(evs, ss)))
        return d, {e: d[e] for e in evs}   # law checks for softmax are separate (softmax_laws)
    if kind == 'table':
        from msdm.core.table import ProbabilityTable, TableIndex
        import numpy as rnp
        ps = simplex(sx, [f"{tag}p{i}" for i in range(n)])
        other = [sx.const(F(1, n))] * n
        if sx.sym:
            from symx.symnp import SymArray
            data = SymArray([ps, other])
        else:
            data = rnp.array([ps, other], dtype=float)
        pt = ProbabilityTable(data=data, table_index=TableIndex(field_names=('row', 'ev'), field_domains=(('r0', 'r1'), tuple(evs))))
        return pt['r0'], dict(zip(evs, ps))
    raise ValueError(kind)


def _total(pr):
    return ssum(pr.values())


# ---------------------------------------------------------------------------------------------
def unary_laws(sx, kind, n, proj, fsel):
    """marginalize / expectation / normalize / items / scaling on one distribution"""
    with facade(sx):
        d, pr = mk_dist(sx, kind, n, 'd')
        evs = list(pr)
        # items/probs/values/support agree with prob()
        its = dict(d.items())
        sx.prove(set(its) == set(evs), 'items-support')
        for e in evs:
            sx.prove_eq(its[e], pr[e], f'items-prob[{evs.index(e)}]')
            sx.prove_eq(d.prob(e), pr[e], f'prob[{evs.index(e)}]')
        sx.prove_eq(ssum(d.probs), _total(pr), 'probs-total')
        sx.prove(d.prob('not-an-event') == 0, 'foreign-event-prob-0')
        # marginalize: projection table proj maps event index -> bucket
        buckets = [proj[i] for i in range(n)]
        m = d.marginalize(lambda e: ('bucket', buckets[evs.index(e)]))
        sx.prove_eq(ssum(p for _, p in m.items()), _total(pr), 'marginalize-mass')
        for b in set(buckets):
            want = ssum(pr[e] for i, e in enumerate(evs) if buckets[i] == b)
            sx.prove_eq(m.prob(('bucket', b)), want, f'marginalize-merged[{b}]')
        sx.prove(set(k for k, _ in m.items()) == {('bucket', b) for b in buckets}, 'marginalize-support')
        # expectation with symbolic or menu function values
        if kind in ('uniform', 'det'):
            fv = [sx.real(f"f{i}", -5, 5) for i in range(n)]
        else:
            menu = [[2, -1, F(1, 2), 0], [0, 0, 3, -2], [1, 1, 1, 1]][fsel]
            fv = [sx.const(menu[i]) for i in range(n)]
        ex = d.expectation(lambda e: fv[evs.index(e)])
        sx.prove_eq(ex, ssum(pr[e] * fv[i] for i, e in enumerate(evs)), 'expectation')
        # scaling and mixture with itself
        k = sx.const(F(3, 4))
        sc = d * k
        for e in evs:
            sx.prove_eq(sc.prob(e), pr[e] * k, f'scale[{evs.index(e)}]')
        sc2 = k * d
        for e in evs:
            sx.prove_eq(sc2.prob(e), pr[e] * k, f'rscale[{evs.index(e)}]')
        # normalize (defined when total > 0)
        tot = _total(pr)
        if tot > 0:
            nd = d.normalize()
            for e in evs:
                sx.prove_eq(nd.prob(e) * tot, pr[e], f'normalize[{evs.index(e)}]')
            sx.prove_eq(ssum(p for _, p in nd.items()), 1, 'normalize-total')
            isn = d.is_normalized()
            sx.prove((not isn) or sx.close(tot, 1, 2e-5), 'is_normalized=>total~1')
            sx.prove(isn or (not sx.close(tot, 1, 1e-9)), 'total=1=>is_normalized')
        sx.observe('exp', ex)
        sx.observe('marg', {repr(k): v for k, v in m.items()})


def binary_laws(sx, kind1, kind2, n1, n2, overlap):
    """mixture, joint, conjunction on two distributions (probabilities of one family symbolic)"""
    with facade(sx):
        d1, p1 = mk_dist(sx, kind1, n1, 'd')
        # second distribution: menu probabilities if the first is symbolic and a product is formed
        from msdm.core.distributions import DictDistribution
        off = 0 if overlap == 'same' else (1 if overlap == 'partial' else n1)
        evs2 = [EVENTS[(off + i) % len(EVENTS)] for i in range(n2)]
        if kind2 == 'menu':
            menu = {1: [1], 2: [F(1, 4), F(3, 4)], 3: [F(1, 2), 0, F(1, 2)], 4: [F(1, 8), F(3, 8), 0, F(1, 2)]}[n2]
            p2 = {e: sx.const(v) for e, v in zip(evs2, menu)}
            d2 = DictDistribution(p2)
        else:
            d2, p2 = mk_dist(sx, kind2, n2, 'e', ev_off=off)
        ev1, ev2 = list(p1), list(p2)
        # mixture a*p | b*q adds pointwise (linear: weights from a menu when probabilities symbolic)
        a, b = sx.const(F(1, 3)), sx.const(F(2, 3))
        mix = (d1 * a) | (d2 * b)
        for e in set(ev1) | set(ev2):
            sx.prove_eq(mix.prob(e), a * p1.get(e, 0) + b * p2.get(e, 0), f'mixture[{e!r}]')
        sx.prove(set(mix.support) == set(ev1) | set(ev2), 'mixture-support')
        # joint is the product measure
        j = d1.joint(d2)
        for x in ev1:
            for y in ev2:
                sx.prove_eq(j.prob((x, y)), p1[x] * p2[y], f'joint[{ev1.index(x)},{ev2.index(y)}]')
        sx.prove(len(j) == len(ev1) * len(ev2), 'joint-support-size')
        sx.prove_eq(ssum(p for _, p in j.items()), _total(p1) * _total(p2), 'joint-total')
        # conjunction: renormalised pointwise product on the common support
        common = [e for e in ev1 if e in p2]
        z = ssum(p1[e] * p2[e] for e in common)
        if common and z > 0:
            cj = d1 & d2
            sx.prove(set(cj.support) == set(common), 'and-support')
            for e in common:
                sx.prove_eq(cj.prob(e) * z, p1[e] * p2[e], f'and[{e!r}]', tol=F(1, 10**9))
            sx.prove_eq(ssum(p for _, p in cj.items()), 1, 'and-normalised', tol=F(1, 10**9))
            sx.observe('and', {repr(k): v for k, v in cj.items()})
        sx.observe('mix', {repr(k): v for k, v in mix.items()})


def condition_chain_laws(sx, kind, n, wsel, ksel):
    """conditioning (Bayes) and chaining (total probability)"""
    from msdm.core.distributions import DictDistribution
    with facade(sx):
        d, pr = mk_dist(sx, kind, n, 'd')
        evs = list(pr)
        # likelihood / predicate weights: menu incl. zeros and booleans
        wmenu = [[F(1, 5), F(1, 2), 0, 1], [True, False, True, False], [0, 0, 2, F(1, 3)], [1, 1, 1, 1]][wsel]
        w = [wmenu[i] if isinstance(wmenu[i], bool) else sx.const(wmenu[i]) for i in range(n)]
        z = ssum(pr[e] * (1 if w[i] is True else (0 if w[i] is False else w[i])) for i, e in enumerate(evs))
        if z > 0:
            post = d.condition(lambda e: w[evs.index(e)])
            for i, e in enumerate(evs):
                wi = 1 if w[i] is True else (0 if w[i] is False else w[i])
                sx.prove_eq(post.prob(e) * z, pr[e] * wi, f'bayes[{i}]')
                if not (wi > 0):
                    sx.prove(e not in set(post.support), f'zero-likelihood-dropped[{i}]')
            sx.prove_eq(ssum(p for _, p in post.items()), 1, 'condition-normalised')
            sx.observe('post', {repr(k): v for k, v in post.items()})
        # chain with a menu kernel (rows incl. zero entries, overlapping targets)
        ys = ['y0', 'y1', ('y', 2)]
        kmenu = [
            [[1, 0, 0], [F(1, 2), F(1, 2), 0], [0, F(1, 4), F(3, 4)], [F(1, 3), F(1, 3), F(1, 3)]],
            [[0, 0, 1], [0, 0, 1], [F(1, 10), F(9, 10), 0], [0, 1, 0]],
        ][min(ksel, 1)]
        if ksel == 2:
            # kernels of different shapes: one-point distributions of mass 1, of mass 0 (a zero-probability entry), a
            # sub-stochastic one-point row, a deterministic distribution object, a two-point row
            from msdm.core.distributions import DeterministicDistribution
            krows = [{0: 1}, 'det1', {2: 0}, {0: F(1, 2)}]
            K = [[sx.const(0)] * 3 for _ in range(n)]
            objs = []
            for i in range(n):
                if krows[i] == 'det1':
                    K[i][1] = sx.const(1)
                    objs.append(DeterministicDistribution(ys[1]))
                else:
                    for k_, v in krows[i].items():
                        K[i][k_] = sx.const(v)
                    objs.append(DictDistribution({ys[k_]: sx.const(v) for k_, v in krows[i].items()}))
            ch = d.chain(lambda e: objs[evs.index(e)])
            for k, y in enumerate(ys):
                sx.prove_eq(ch.prob(y), ssum(pr[e] * K[i][k] for i, e in enumerate(evs)), f'chain-mixed-kernel-shapes[{k}]')
            sx.prove_eq(ssum(p for _, p in ch.items()), ssum(pr[e] * ssum(K[i]) for i, e in enumerate(evs)), 'chain-mixed-kernel-shapes-mass')
            return
        K = [[sx.const(v) for v in kmenu[i]] for i in range(n)]
        ch = d.chain(lambda e: DictDistribution({y: K[evs.index(e)][k] for k, y in enumerate(ys)}))
        for k, y in enumerate(ys):
            sx.prove_eq(ch.prob(y), ssum(pr[e] * K[i][k] for i, e in enumerate(evs)), f'chain[{k}]')
        sx.prove_eq(ssum(p for _, p in ch.items()), _total(pr), 'chain-mass')
        sx.observe('chain', {repr(k): v for k, v in ch.items()})


def nra_product_laws(sx):
    """2x2 fully symbolic: chain / joint / condition are polynomial identities (NRA)"""
    from msdm.core.distributions import DictDistribution
    with facade(sx):
        p = simplex(sx, ['p0', 'p1'])
        k0 = simplex(sx, ['k00', 'k01'])
        k1 = simplex(sx, ['k10', 'k11'])
        d = DictDistribution({'x0': p[0], 'x1': p[1]})
        K = {'x0': k0, 'x1': k1}
        ch = d.chain(lambda e: DictDistribution({'y0': K[e][0], 'y1': K[e][1]}))
        sx.prove_eq(ch.prob('y0'), p[0] * k0[0] + p[1] * k1[0], 'nra-chain-y0')
        sx.prove_eq(ch.prob('y1'), p[0] * k0[1] + p[1] * k1[1], 'nra-chain-y1')
        sx.prove_eq(ssum(v for _, v in ch.items()), 1, 'nra-chain-total')
        j = d.joint(DictDistribution({'y0': k0[0], 'y1': k0[1]}))
        sx.prove_eq(ssum(v for _, v in j.items()), 1, 'nra-joint-total')
        w = [sx.real('w0', 0, 1), sx.real('w1', 0, 1)]
        z = p[0] * w[0] + p[1] * w[1]
        if z > 0:
            post = d.condition(lambda e: w[0] if e == 'x0' else w[1])
            sx.prove_eq(post.prob('x0') * z, p[0] * w[0], 'nra-bayes-x0')
            sx.prove_eq(ssum(v for _, v in post.items()), 1, 'nra-bayes-normalised')


def softmax_laws(sx, n):
    from msdm.core.distributions import SoftmaxDistribution
    with facade(sx):
        evs = EVENTS[:n]
        ss = [sx.real(f"s{i}", -3, 3) for i in range(n)]
        c = sx.real('shift', -5, 5)
        d = SoftmaxDistribution(dict(zip(evs, ss)))
        sx.prove_eq(ssum(p for _, p in d.items()), 1, 'softmax-normalised', tol=F(1, 10**9))
        for e in evs:
            sx.prove(d.prob(e) > 0, f'softmax-positive[{evs.index(e)}]')
        d2 = SoftmaxDistribution({e: s + c for e, s in zip(evs, ss)})
        for e in evs:
            sx.prove_eq(d2.prob(e), d.prob(e), f'softmax-shift[{evs.index(e)}]', tol=F(1, 10**9))
        # ratio law: p_i / p_j = Exp(s_i - m) / Exp(s_j - m) -- equal scores get equal mass
        for i in range(n):
            for j in range(i + 1, n):
                eq = (ss[i] == ss[j])
                sx.prove((~eq if is_sym(eq) else (not eq)) | sx.close(d.prob(evs[i]), d.prob(evs[j]), F(1, 10**9)),
                         f'softmax-equal-scores[{i},{j}]')
        sx.observe('softmax', {repr(k): v for k, v in d.items()})


def sampling_laws(sx, kind, n):
    """sample() returns an event whose probability term is the weight passed and that weight is > 0;
    one-point distributions never consult the generator; the global generator is never touched"""
    with facade(sx):
        d, pr = mk_dist(sx, kind, n, 'd')
        evs = list(pr)
        if kind in ('dict', 'table', 'dictun'):
            sx.assume(ssum(pr.values()) > 0)
        rng = NondetStream(3)
        x = d.sample(rng=rng)
        sx.prove(x in evs, 'sample-in-support')
        if x in evs:
            sx.prove(pr[x] > 0, 'sample-positive-probability')
        if n == 1:
            sx.prove(rng.n == 0 or kind == 'uniform', 'one-point-does-not-consult-generator')
            sx.prove(x == evs[0], 'one-point-returns-sole-event')
        else:
            sx.prove(len(rng.log) == 1, 'exactly-one-draw')
            kind_, pop, wts, i = rng.log[0]
            sx.prove(list(pop) == evs, 'population=support')
            if wts is not None:
                for e, wv in zip(pop, wts):
                    sx.prove_eq(wv, pr[e], f'weight=prob[{evs.index(e)}]')
        sx.prove(not stubs.TAINT.reads and not stubs.TAINT.writes, 'global-generator-untouched')
        # k > 1
        if n > 1 and kind in ('dict', 'table'):
            rng2 = NondetStream(3)
            xs = d.sample(rng=rng2, k=2)
            sx.prove(len(xs) == 2 and all(pr[v] > 0 for v in xs), 'sample-k2-positive')


def sampling_after_update(sx, n):
    """a DictDistribution is a dict: after its entries are re-weighted in place (same keys / a key replaced), sampling follows the
    CURRENT weights - positive-probability events only, the sole event of what is now a one-point distribution"""
    from msdm.core.distributions import DictDistribution
    with facade(sx):
        evs = [EVENTS[i] for i in range(n)]
        ps = simplex(sx, [f"dp{i}" for i in range(n)])
        qs = simplex(sx, [f"dq{i}" for i in range(n)])
        d = DictDistribution(dict(zip(evs, ps)))
        rng = NondetStream(3)
        x = d.sample(rng=rng)
        sx.prove(ps[evs.index(x)] > 0, 'sample-positive-probability')
        for e, q in zip(evs, qs):
            d[e] = q
        y = d.sample(rng=NondetStream(5))
        sx.prove(qs[evs.index(y)] > 0, 'sample-after-in-place-update-positive-under-current-weights')
        # replace one key by another (same number of entries), all mass on the new key
        new = EVENTS[n]
        del d[evs[0]]
        for e in evs[1:]:
            d[e] = 0
        d[new] = 1
        z = d.sample(rng=NondetStream(7))
        sx.prove(z == new, 'sample-after-key-replacement-returns-the-only-positive-event')
        sx.prove(not stubs.TAINT.reads and not stubs.TAINT.writes, 'global-generator-untouched')


def seeded_sampling(sx, kind, n, k):
    """repeated sampling from two equally seeded generators gives identical sequences (generators: deterministic-uninterpreted,
    the j-th draw of a stream is U(seed, j); the seed is a symbolic integer)"""
    seed = sx.integer('seed')
    with det_random(sx), facade(sx):
        d, pr = mk_dist(sx, kind, n, 'd')
        if kind in ('dict', 'table', 'dictun'):
            sx.assume(ssum(pr.values()) > 0)
        import random as _r
        g1, g2 = (DetStream(seed), DetStream(seed)) if sx.sym else (_r.Random(int(seed)), _r.Random(int(seed)))
        xs = [d.sample(rng=g1) for _ in range(k)]
        ys = [d.sample(rng=g2) for _ in range(k)]
        sx.prove(xs == ys, 'equally-seeded-generators-give-identical-sample-sequences')
        sx.prove(all(bool(pr[x] > 0) for x in xs), 'seeded-samples-have-positive-probability')
        sx.prove(not stubs.TAINT.reads, 'global-generator-untouched')


def jobs(tier):
    N = 3 if tier == 'quick' else 4
    o = dict(timeout_ms=15000, budget_s=(120 if tier == 'quick' else 600))
    for kind in KINDS:
        for n in range(1, N + 1):
            if kind == 'det' and n > 1:
                continue
            if kind == 'softmax':
                continue
            projs = [[0] * n, list(range(n)), [0, 1, 0, 1][:n]] if tier == 'quick' else \
                [list(p) for p in itertools.product(range(min(n, 3)), repeat=n)]
            seen = set()
            for proj in projs:
                if tuple(proj) in seen:
                    continue
                seen.add(tuple(proj))
                for fsel in ([0] if tier == 'quick' else [0, 1, 2]):
                    yield ('unary_laws', dict(kind=kind, n=n, proj=proj, fsel=fsel), o)
            for wsel in range(4):
                for ksel in range(3 if wsel == 0 else 2):
                    yield ('condition_chain_laws', dict(kind=kind, n=n, wsel=wsel, ksel=ksel), o)
            yield ('sampling_laws', dict(kind=kind, n=n), o)
            if n >= 2 or kind == 'det':
                yield ('seeded_sampling', dict(kind=kind, n=n, k=2 if tier == 'quick' else 3), o)
    for n in range(1, N + 1):
        yield ('sampling_after_update', dict(n=n), o)
    for k1 in ['dict', 'dictun', 'uniform', 'det', 'table']:
        for k2 in ['menu', 'uniform', 'det'] + (['dict'] if k1 in ('uniform', 'det') else []):
            for n1 in range(1, N + 1):
                if k1 == 'det' and n1 > 1:
                    continue
                for n2 in range(1, N + 1):
                    if k2 == 'det' and n2 > 1:
                        continue
                    for ov in ['same', 'partial', 'disjoint']:
                        yield ('binary_laws', dict(kind1=k1, kind2=k2, n1=n1, n2=n2, overlap=ov), o)
    for n in range(1, (3 if tier == 'quick' else 4) + 1):
        yield ('softmax_laws', dict(n=n), o)
    yield ('nra_product_laws', {}, dict(timeout_ms=60000))
