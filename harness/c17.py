"""C17 — R-MAX stays optimistic about what it has not tried often enough."""
from fractions import Fraction as F

from symx import core, stubs
from symx.core import is_sym, ssum
from symx.stubs import facade
from harness.common import Shape, build_mdp

PROPERTY = 'C17'
FUNCTIONS = ['msdm.algorithms.rmax.RMAX.{train_on,_init_random_number_generator,_init_training,_training,_act,_observe,_value_iteration,'
             '_self_transition_mat,_create_q,_create_policy}']
ASSUMPTIONS = [
    'rewards are symbolic in [-1, rmax] with one transition pinned to rmax (the learner asserts rmax == max reward); the convergence tolerance is symbolic',
    'random.Random(seed) is a nondeterministic stream: all experienced histories within the bound', 'numpy facade (np.max / np.all / np.where merged or forked as in the other checks)',
    'the inner "while True" sweep loop is bounded by a cap on the number of decisions per path (paths beyond it are cut and counted)',
]
OUTSIDE = ['more than 3 states / 2 actions, thresholds above 2, more than 2 episodes, more than 3 steps per episode', 'rounding']

H, Q1, Q3 = F(1, 2), F(1, 4), F(3, 4)


def shapes():
    out = []
    out.append(Shape(2, 2, [[0, 1], [0, 1]], {(0, 0): {0: H, 1: H}, (0, 1): {1: 1}, (1, 0): {1: 1}, (1, 1): {1: 1}}, absorb=[1], gamma=F(1, 2), name='two'))
    out.append(Shape(3, 2, [[0, 1], [0, 1], [0, 1]], {(0, 0): {1: 1}, (0, 1): {0: Q1, 2: Q3}, (1, 0): {2: 1}, (1, 1): {0: H, 2: H}, (2, 0): {2: 1}, (2, 1): {2: 1}},
                     absorb=[2], gamma=F(1, 2), s0={0: H, 1: H}, name='three'))
    out.append(Shape(2, 2, [[0, 1], [0, 1]], {(0, 0): {0: H, 1: H}, (0, 1): {1: 1}, (1, 0): {1: 1}, (1, 1): {1: 1}}, absorb=[1], gamma=F(9, 10), name='two-g09'))
    return out


SHAPES = shapes()


def bounds(tier):
    return dict(skeletons=[s.name for s in SHAPES], thresholds=[1, 2] if tier == 'quick' else [1, 2, 3], episodes='1..2 (quick) / 1..3 (thorough)', steps_per_episode='<= 2 (quick) / 3 (thorough)',
                gamma=['1/2', '9/10'], decision_cap=400)


def _listener(log, L):
    from msdm.algorithms.rmax import RMAXEventListener

    class Lst(RMAXEventListener):
        def __init__(self):
            self.n = 0

        def end_of_timestep(self, lv):
            self.n += 1
            if self.n > L:
                raise core.PathCut('episode longer than the step bound')
            log.append(dict(s=lv['s'], a=lv['a'], ai=lv['ai'], r=lv['r'], ns=lv['ns']))

        def end_of_episode(self, lv):
            self.n = 0

        def results(self):
            return None
    return Lst


def _rewards(sx, sh, tag='r'):
    rew = {}
    first = True
    for s in range(sh.S):
        for a in sh.avail[s]:
            for ns in sh.rows[(s, a)]:
                if first:
                    rew[(s, a, ns)] = 1      # the maximum reward is attained (the learner asserts it)
                    first = False
                else:
                    rew[(s, a, ns)] = sx.real(f"{tag}_{s}_{a}_{ns}", -1, 1)
    return rew


def _check_result(sx, sh, rew, res, log, m, diff, g, tag=''):
    Ls, AL = sh.slabels, sh.alabels
    opt = F(1) / (1 - g)
    # experience: real transitions with the model's reward
    samples = {}
    for k, e in enumerate(log):
        s, a, ns = Ls.index(e['s']), AL.index(e['a']), Ls.index(e['ns'])
        sx.prove(s not in sh.absorb and a in sh.avail[s], f'{tag}step-from-non-absorbing-with-available-action[{k}]')
        sx.prove(sh.rows[(s, a)].get(ns, 0) > 0, f'{tag}real-transition[{k}]')
        sx.prove_eq(e['r'], rew[(s, a, ns)], f'{tag}model-reward[{k}]', tol=0)
        samples.setdefault((s, a), []).append((e['r'], ns))
    q = {(s, a): res.q_values[Ls[s]][AL[a]] for s in range(sh.S) for a in range(sh.A)}
    for (s, a), v in q.items():
        sx.prove_le(v, opt, f'{tag}q-at-most-rmax-over-1-minus-gamma[{s},{a}]', tol=F(1, 10**9))
        if len(samples.get((s, a), [])) < m:
            sx.prove_eq(v, opt, f'{tag}under-tried-pair-is-optimistic[{s},{a}]', tol=0)
    vmax = {}
    for s in range(sh.S):
        mm = None
        for a in range(sh.A):
            mm = q[(s, a)] if mm is None else core.smax2(mm, q[(s, a)])
        vmax[s] = mm
    for (s, a), smp in samples.items():
        if len(smp) >= m:
            first = smp[:m]
            rhat = ssum(r for r, _ in first) / m
            that = {}
            for _, ns in first:
                that[ns] = that.get(ns, 0) + F(1, m)
            want = rhat + sx.const(g) * ssum(p * vmax[ns] for ns, p in that.items())
            d = q[(s, a)] - want
            sx.prove((d < diff) & (-d < diff) if is_sym(d) or is_sym(diff) else abs(d) < diff, f'{tag}empirical-bellman-residual-below-tolerance[{s},{a}]')
    for s in range(sh.S):
        d = dict(res.policy.action_dist(Ls[s]).items())
        G = [a for a in range(sh.A) if bool(q[(s, a)] == vmax[s])]
        sx.prove(set(d) == {AL[a] for a in G}, f'{tag}policy-greedy-for-returned-q[{s}]')
        for a in G:
            sx.prove_eq(d.get(AL[a], 0), F(1, len(G)), f'{tag}policy-uniform-over-greedy[{s},{a}]')


def train(sx, shape, m, episodes, L, diffsym=True, unsorted_actions=False):
    sh = SHAPES[shape]
    if unsorted_actions:
        sh = sh.with_(alabels=['right', 'left'])      # listed in an order that is not the sorted order of the labels
    g = sh.gamma
    from msdm.algorithms.rmax import RMAX
    rew = _rewards(sx, sh)
    diff = sx.real('bellman_convergence_diff', F(1, 4), 1) if diffsym else sx.const(F(1, 2))
    log = []
    sx.c.max_decisions = 400
    with facade(sx):
        mdp = build_mdp(sx, sh, rew)
        lrn = RMAX(episodes=episodes, rmax=1, num_transition_samples=m, bellman_convergence_diff=diff, seed=9, event_listener_class=_listener(log, L))
        with sx.must_not_raise('train_on'):
            res = lrn.train_on(mdp)
        _check_result(sx, sh, rew, res, log, m, diff, g)
        sx.prove(not stubs.TAINT.reads, 'global-generator-not-consulted')
        sx.observe('n', len(log))


def retrain_other_size(sx, m):
    """the same learner object trained on a second MDP with a different number of states"""
    from msdm.algorithms.rmax import RMAX
    shA, shB = SHAPES[0], SHAPES[1]
    rewA, rewB = _rewards(sx, shA, 'rA'), _rewards(sx, shB, 'rB')
    diff = sx.const(F(1, 2))
    logA, logB = [], []
    sx.c.max_decisions = 400
    with facade(sx):
        mA, mB = build_mdp(sx, shA, rewA), build_mdp(sx, shB, rewB)
        cur = {'log': logA}

        class Sw:
            pass
        from msdm.algorithms.rmax import RMAXEventListener

        def mk():
            return _listener(cur['log'], 2)()
        lrn = RMAX(episodes=1, rmax=1, num_transition_samples=m, bellman_convergence_diff=diff, seed=9, event_listener_class=mk)
        r1 = lrn.train_on(mA)
        cur['log'] = logB
        with sx.must_not_raise('second-train_on'):
            r2 = lrn.train_on(mB)
        _check_result(sx, shB, rewB, r2, logB, m, diff, shB.gamma, tag='second-')


def observe_step(sx, m, cfg):
    """ONE model update from an arbitrary reachable learner state (the inductive step behind 'the empirical model of a pair is
    built from its FIRST m samples'): the learner's tables are set to a state in which every pair has been tried c(s,a) <= m
    times (counts from a menu, reward sums / previous Q-values symbolic), one transition (s, a, r, s') with symbolic indices
    is observed, and afterwards: a pair that already had m samples is unchanged in every table; otherwise exactly that pair's
    count, reward sum and transition count grew by this sample; transition counts still sum to the pair's count; and when
    the pair has just reached m the Q-values of known pairs satisfy the Bellman equation of the counted model within the
    tolerance while all other pairs stay optimistic."""
    sh = SHAPES[0]          # two states (0 ordinary, 1 absorbing), two actions
    g = sh.gamma
    from msdm.algorithms.rmax import RMAX
    rew = _rewards(sx, sh)
    diff = sx.const(F(1, 2))
    opt = F(1) / (1 - g)
    S, A = sh.S, sh.A
    # counts per pair and how the counted transitions are spread over next states
    CFG = [
        {(0, 0): (m, [m, 0]), (0, 1): (0, [0, 0])},
        {(0, 0): (m, [m - 1, 1]), (0, 1): (m - 1, [0, m - 1])},
        {(0, 0): (m - 1, [m - 1, 0]), (0, 1): (m, [0, m])},
        {(0, 0): (m, [0, m]), (0, 1): (m, [1, m - 1])},
        {(0, 0): (0, [0, 0]), (0, 1): (0, [0, 0])},
    ][cfg]
    import numpy as rnp
    sx.c.max_decisions = 300
    with facade(sx):
        mdp = build_mdp(sx, sh, rew)
        lrn = RMAX(episodes=1, rmax=1, num_transition_samples=m, bellman_convergence_diff=diff, seed=1)
        lrn._init_training(mdp)
        cnt = {}
        for (s, a), (c_, spread) in CFG.items():
            if any(x < 0 for x in spread) or c_ < 0:
                raise core.Infeasible()
            cnt[(s, a)] = c_
            lrn.s_a_counts[s, a] = c_
            for ns, k in enumerate(spread):
                lrn.transitions[s, a, ns] = k
            lrn.rewards[s, a] = sx.real(f"Rsum_{s}_{a}", -c_, c_) if c_ else 0
            if c_ >= m:
                lrn.q_matrix[s, a] = sx.real(f"Qprev_{s}_{a}", -2, 2)       # whatever earlier sweeps left there
        before = dict(counts=lrn.s_a_counts.copy(), trans=lrn.transitions.copy(), rews=lrn.rewards.copy(), q=lrn.q_matrix.copy())
        a_ = int(sx.integer('a', 0, A - 1))
        ns_ = int(sx.integer('ns', 0, S - 1))
        r_ = sx.real('r', -1, 1)
        with sx.must_not_raise('observe'):
            lrn._observe(0, a_, r_, ns_, sx.const(g))
        known_before = cnt[(0, a_)] >= m
        for s in range(S):
            for a in range(A):
                same_pair = (s, a) == (0, a_)
                grow = 1 if (same_pair and not known_before) else 0
                sx.prove_eq(lrn.s_a_counts[s, a], before['counts'][s, a] + grow, f'count[{s},{a}]', tol=0)
                sx.prove_eq(lrn.rewards[s, a], before['rews'][s, a] + (r_ if grow else 0), f'reward-sum[{s},{a}]', tol=0)
                for ns in range(S):
                    sx.prove_eq(lrn.transitions[s, a, ns], before['trans'][s, a, ns] + (1 if (grow and ns == ns_) else 0),
                                f'transition-count{"-of-known-pair-frozen" if (same_pair and known_before) else ""}[{s},{a},{ns}]', tol=0)
                sx.prove_eq(ssum(lrn.transitions[s, a, ns] for ns in range(S)), lrn.s_a_counts[s, a], f'transition-counts-sum-to-count[{s},{a}]', tol=0)
        now_known = {(s, a) for s in range(S) for a in range(A) if bool(lrn.s_a_counts[s, a] >= m)}
        replanned = (not known_before) and cnt[(0, a_)] + 1 == m
        if not replanned:
            for s in range(S):
                for a in range(A):
                    sx.prove_eq(lrn.q_matrix[s, a], before['q'][s, a], f'q-unchanged-without-replanning[{s},{a}]', tol=0)
            return
        q = {(s, a): lrn.q_matrix[s, a] for s in range(S) for a in range(A)}
        vmax = {s: core.smax2(q[(s, 0)], q[(s, 1)]) for s in range(S)}
        for (s, a), v in q.items():
            if (s, a) not in now_known:
                sx.prove_eq(v, opt, f'unknown-pair-stays-optimistic[{s},{a}]', tol=0)
            else:
                rhat = lrn.rewards[s, a] / m
                want = rhat + sx.const(g) * ssum((lrn.transitions[s, a, ns] / m) * vmax[ns] for ns in range(S))
                d = v - want
                sx.prove((d < diff) & (-d < diff) if is_sym(d) else abs(d) < diff, f'bellman-residual-of-the-counted-model[{s},{a}]')


def jobs(tier):
    quick = tier == 'quick'
    o = dict(timeout_ms=15000, budget_s=(300 if tier == 'quick' else 1500), max_paths=40000)
    for i, sh in enumerate(SHAPES):
        for m in ([1, 2] if quick else [1, 2, 3]):
            for ep, L in ([(1, 2), (2, 1)] if quick else [(1, 3), (2, 2), (3, 2), (2, 3)]):
                if quick and i == 1 and m == 2 and ep == 2:
                    continue
                yield ('train', dict(shape=i, m=m, episodes=ep, L=L), dict(o, cost=5))
    yield ('retrain_other_size', dict(m=1), o)
    for i in ([0] if quick else range(len(SHAPES))):
        yield ('train', dict(shape=i, m=1, episodes=2, L=2, unsorted_actions=True), dict(o, cost=5))
    for m in [1, 2, 3]:
        for cfg in range(5):
            yield ('observe_step', dict(m=m, cfg=cfg), o)
