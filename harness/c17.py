"""C17 — R-MAX stays optimistic about what it has not tried often enough."""
from fractions import Fraction as F

from symx import core, stubs
from symx.core import is_sym, ssum
from symx.stubs import facade
from harness.common import Shape, build_mdp

PROPERTY = 'C17'
FUNCTIONS = ['msdm.algorithms.rmax.RMAX.{train_on,_init_random_number_generator,_init_training,_training,_act,_observe,_value_iteration,'
             '_self_transition_mat,_create_q,_create_policy}']
ASSUMPTIONS = [
    'rewards are symbolic in [-1, rmax] with one transition pinned to rmax (the learner asserts rmax == max reward); the convergence tolerance is symbolic',
    'random.Random(seed) is a nondeterministic stream: all experienced histories within the bound', 'numpy facade (np.max / np.all / np.where merged or forked as in the other checks)',
    'the inner "while True" sweep loop is bounded by a cap on the number of decisions per path (paths beyond it are cut and counted)',
]
OUTSIDE = ['more than 3 states / 2 actions, thresholds above 2, more than 2 episodes, more than 3 steps per episode', 'rounding']

H, Q1, Q3 = F(1, 2), F(1, 4), F(3, 4)


def shapes():
    out = []
    out.append(Shape(2, 2, [[0, 1], [0, 1]], {(0, 0): {0: H, 1: H}, (0, 1): {1: 1}, (1, 0): {1: 1}, (1, 1): {1: 1}}, absorb=[1], gamma=F(1, 2), name='two'))
    out.append(Shape(3, 2, [[0, 1], [0, 1], [0, 1]], {(0, 0): {1: 1}, (0, 1): {0: Q1, 2: Q3}, (1, 0): {2: 1}, (1, 1): {0: H, 2: H}, (2, 0): {2: 1}, (2, 1): {2: 1}},
                     absorb=[2], gamma=F(1, 2), s0={0: H, 1: H}, name='three'))
    out.append(Shape(2, 2, [[0, 1], [0, 1]], {(0, 0): {0: H, 1: H}, (0, 1): {1: 1}, (1, 0): {1: 1}, (1, 1): {1: 1}}, absorb=[1], gamma=F(9, 10), name='two-g09'))
    return out


SHAPES = shapes()


def bounds(tier):
    return dict(skeletons=[s.name for s in SHAPES], thresholds=[1, 2], episodes='1..2', steps_per_episode='<= 2 (quick) / 3 (thorough)',
                gamma=['1/2', '9/10'], decision_cap=400)


def _listener(log, L):
    from msdm.algorithms.rmax import RMAXEventListener

    class Lst(RMAXEventListener):
        def __init__(self):
            self.n = 0

        def end_of_timestep(self, lv):
            self.n += 1
            if self.n > L:
                raise core.PathCut('episode longer than the step bound')
            log.append(dict(s=lv['s'], a=lv['a'], ai=lv['ai'], r=lv['r'], ns=lv['ns']))

        def end_of_episode(self, lv):
            self.n = 0

        def results(self):
            return None
    return Lst


def _rewards(sx, sh, tag='r'):
    rew = {}
    first = True
    for s in range(sh.S):
        for a in sh.avail[s]:
            for ns in sh.rows[(s, a)]:
                if first:
                    rew[(s, a, ns)] = 1      # the maximum reward is attained (the learner asserts it)
                    first = False
                else:
                    rew[(s, a, ns)] = sx.real(f"{tag}_{s}_{a}_{ns}", -1, 1)
    return rew


def _check_result(sx, sh, rew, res, log, m, diff, g, tag=''):
    Ls, AL = sh.slabels, sh.alabels
    opt = F(1) / (1 - g)
    # experience: real transitions with the model's reward
    samples = {}
    for k, e in enumerate(log):
        s, a, ns = Ls.index(e['s']), AL.index(e['a']), Ls.index(e['ns'])
        sx.prove(s not in sh.absorb and a in sh.avail[s], f'{tag}step-from-non-absorbing-with-available-action[{k}]')
        sx.prove(sh.rows[(s, a)].get(ns, 0) > 0, f'{tag}real-transition[{k}]')
        sx.prove_eq(e['r'], rew[(s, a, ns)], f'{tag}model-reward[{k}]', tol=0)
        samples.setdefault((s, a), []).append((e['r'], ns))
    q = {(s, a): res.q_values[Ls[s]][AL[a]] for s in range(sh.S) for a in range(sh.A)}
    for (s, a), v in q.items():
        sx.prove_le(v, opt, f'{tag}q-at-most-rmax-over-1-minus-gamma[{s},{a}]', tol=F(1, 10**9))
        if len(samples.get((s, a), [])) < m:
            sx.prove_eq(v, opt, f'{tag}under-tried-pair-is-optimistic[{s},{a}]', tol=0)
    vmax = {}
    for s in range(sh.S):
        mm = None
        for a in range(sh.A):
            mm = q[(s, a)] if mm is None else core.smax2(mm, q[(s, a)])
        vmax[s] = mm
    for (s, a), smp in samples.items():
        if len(smp) >= m:
            first = smp[:m]
            rhat = ssum(r for r, _ in first) / m
            that = {}
            for _, ns in first:
                that[ns] = that.get(ns, 0) + F(1, m)
            want = rhat + sx.const(g) * ssum(p * vmax[ns] for ns, p in that.items())
            d = q[(s, a)] - want
            sx.prove((d < diff) & (-d < diff) if is_sym(d) or is_sym(diff) else abs(d) < diff, f'{tag}empirical-bellman-residual-below-tolerance[{s},{a}]')
    for s in range(sh.S):
        d = dict(res.policy.action_dist(Ls[s]).items())
        G = [a for a in range(sh.A) if bool(q[(s, a)] == vmax[s])]
        sx.prove(set(d) == {AL[a] for a in G}, f'{tag}policy-greedy-for-returned-q[{s}]')
        for a in G:
            sx.prove_eq(d.get(AL[a], 0), F(1, len(G)), f'{tag}policy-uniform-over-greedy[{s},{a}]')


def train(sx, shape, m, episodes, L, diffsym=True):
    sh = SHAPES[shape]
    g = sh.gamma
    from msdm.algorithms.rmax import RMAX
    rew = _rewards(sx, sh)
    diff = sx.real('bellman_convergence_diff', F(1, 4), 1) if diffsym else sx.const(F(1, 2))
    log = []
    sx.c.max_decisions = 400
    with facade(sx):
        mdp = build_mdp(sx, sh, rew)
        lrn = RMAX(episodes=episodes, rmax=1, num_transition_samples=m, bellman_convergence_diff=diff, seed=9, event_listener_class=_listener(log, L))
        with sx.must_not_raise('train_on'):
            res = lrn.train_on(mdp)
        _check_result(sx, sh, rew, res, log, m, diff, g)
        sx.prove(not stubs.TAINT.reads, 'global-generator-not-consulted')
        sx.observe('n', len(log))


def retrain_other_size(sx, m):
    """the same learner object trained on a second MDP with a different number of states"""
    from msdm.algorithms.rmax import RMAX
    shA, shB = SHAPES[0], SHAPES[1]
    rewA, rewB = _rewards(sx, shA, 'rA'), _rewards(sx, shB, 'rB')
    diff = sx.const(F(1, 2))
    logA, logB = [], []
    sx.c.max_decisions = 400
    with facade(sx):
        mA, mB = build_mdp(sx, shA, rewA), build_mdp(sx, shB, rewB)
        cur = {'log': logA}

        class Sw:
            pass
        from msdm.algorithms.rmax import RMAXEventListener

        def mk():
            return _listener(cur['log'], 2)()
        lrn = RMAX(episodes=1, rmax=1, num_transition_samples=m, bellman_convergence_diff=diff, seed=9, event_listener_class=mk)
        r1 = lrn.train_on(mA)
        cur['log'] = logB
        with sx.must_not_raise('second-train_on'):
            r2 = lrn.train_on(mB)
        _check_result(sx, shB, rewB, r2, logB, m, diff, shB.gamma, tag='second-')


def jobs(tier):
    quick = tier == 'quick'
    o = dict(timeout_ms=60000, budget_s=1500, max_paths=40000)
    for i, sh in enumerate(SHAPES):
        for m in [1, 2]:
            for ep, L in ([(1, 2), (2, 1)] if quick else [(1, 3), (2, 2)]):
                if quick and i == 1 and m == 2 and ep == 2:
                    continue
                yield ('train', dict(shape=i, m=m, episodes=ep, L=L), dict(o, cost=5))
    yield ('retrain_other_size', dict(m=1), o)
