"""Shared harness vocabulary: menus, shapes, oracles."""
from fractions import Fraction as F
import itertools
import z3

from symx import core
from symx.core import SymReal, SymBool, SymInt, toz, is_sym

EVENTS = ['a', 7, (1, 2), frozenset({3}), None, 2.5, 'b', (0,)]


def simplex(sx, names, allow_zero=True, total=1):
    """symbolic point on the simplex: p_i >= 0 (or > 0), sum = total (last = total - rest)"""
    ps = [sx.real(n, 0, None, lo_open=not allow_zero) for n in names[:-1]]
    last = total - core.ssum(ps)
    if sx.mode == 'real':
        if -1e-12 < last < 0:
            last = 0.0
        sx.c.inputs[names[-1]] = (None, 'real')
    else:
        # keep the last component visible as a named input for models
        zv = z3.Real(names[-1])
        sx.c.inputs[names[-1]] = (zv, 'real')
        sx.c.add(zv == toz(last))
        last = SymReal(zv) if is_sym(last) else last
    sx.assume(last > 0 if not allow_zero else last >= 0)
    return ps + [last]


def zmax(xs):
    m = xs[0]
    for x in xs[1:]:
        m = z3.If(x > m, x, m)
    return m


def lit(x):
    return toz(x)
