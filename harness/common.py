"""Shared harness vocabulary: menus, shapes, oracles."""
from fractions import Fraction as F
import itertools
import z3

from symx import core
from symx.core import SymReal, SymBool, SymInt, toz, is_sym

EVENTS = ['a', 7, (1, 2), frozenset({3}), None, 2.5, 'b', (0,)]


def simplex(sx, names, allow_zero=True, total=1):
    """symbolic point on the simplex: p_i >= 0 (or > 0), sum = total (last = total - rest)"""
    ps = [sx.real(n, 0, None, lo_open=not allow_zero) for n in names[:-1]]
    last = total - core.ssum(ps)
    if sx.mode == 'real':
        if -1e-12 < last < 0:
            last = 0.0
        sx.c.inputs[names[-1]] = (None, 'real')
    else:
        # keep the last component visible as a named input for models
        zv = z3.Real(names[-1])
        sx.c.inputs[names[-1]] = (zv, 'real')
        sx.c.add(zv == toz(last))
        last = SymReal(zv) if is_sym(last) else last
    sx.assume(last > 0 if not allow_zero else last >= 0)
    return ps + [last]


def zmax(xs):
    m = xs[0]
    for x in xs[1:]:
        m = z3.If(x > m, x, m)
    return m


def lit(x):
    return toz(x)


# =============================================================================================
# MDP shapes: the discrete skeleton of a problem (concrete), rewards are left to the solver
class Shape:
    """S states 0..S-1 (labels optional), A actions, avail[s] = list of action indices,
    rows[(s,a)] = {ns: Fraction}, absorb = set of explicitly absorbing states, s0 = {s: Fraction}"""

    def __init__(self, S, A, avail, rows, absorb=(), s0=None, gamma=F(9, 10), name='', slabels=None, alabels=None):
        self.S, self.A = S, A
        self.avail = [list(a) for a in avail]
        self.rows = {k: dict(v) for k, v in rows.items()}
        self.absorb = set(absorb)
        self.s0 = dict(s0) if s0 else {0: F(1)}
        self.gamma = gamma
        self.name = name
        self.slabels = list(slabels) if slabels else list(range(S))
        self.alabels = list(alabels) if alabels else ['a%d' % i for i in range(A)]
        for (s, a), row in self.rows.items():
            assert sum(row.values()) == 1, (s, a, row)
        for s in range(S):
            for a in self.avail[s]:
                assert (s, a) in self.rows, (s, a)

    def key(self):
        return dict(name=self.name, S=self.S, A=self.A, gamma=str(self.gamma))

    def with_(self, **kw):
        import copy
        o = copy.deepcopy(self)
        for k, v in kw.items():
            setattr(o, k, v)
        return o

    # ---- concrete structural analysis used by oracles (independent of the code under test)
    def succ(self, s, a):
        return [ns for ns, p in self.rows[(s, a)].items() if p > 0]

    def reach_from(self, srcs, stop=()):
        seen = set(srcs)
        st = list(srcs)
        while st:
            s = st.pop()
            if s in stop:
                continue
            for a in self.avail[s]:
                for ns in self.succ(s, a):
                    if ns not in seen:
                        seen.add(ns)
                        st.append(ns)
        return seen

    def is_proper(self, absorbing):
        """every policy reaches `absorbing` with probability 1 from every state:
        no closed set of non-absorbing states under any choice of actions."""
        # a set C of non-absorbing states is a trap if every s in C has SOME action staying within C
        C = set(range(self.S)) - set(absorbing)
        changed = True
        while changed:
            changed = False
            for s in list(C):
                # s can be kept in a trap only if some available action has all successors in C
                if not any(all(ns in C for ns in self.succ(s, a)) for a in self.avail[s]):
                    C.discard(s)
                    changed = True
        return len(C) == 0


def build_mdp(sx, sh, rew, is_absorbing=None, cls=None, explicit_lists=False):
    """the repository's QuickTabularMDP whose callbacks read the shape's tables.
    rew[(s,a,ns)] -> number (symbolic or menu)"""
    from msdm.core.mdp import QuickTabularMDP
    from msdm.core.distributions import DictDistribution
    L, AL = sh.slabels, sh.alabels
    si = {l: i for i, l in enumerate(L)}
    ai = {l: i for i, l in enumerate(AL)}
    c = sx.const

    def nsd(s, a):
        return DictDistribution({L[ns]: c(p) for ns, p in sh.rows[(si[s], ai[a])].items()})

    def reward(s, a, ns):
        return rew[(si[s], ai[a], si[ns])]

    def actions(s):
        return tuple(AL[a] for a in sh.avail[si[s]])
    mdp = (cls or QuickTabularMDP)(
        next_state_dist=nsd, reward=reward, actions=actions,
        initial_state_dist=DictDistribution({L[s]: c(p) for s, p in sh.s0.items()}),
        is_absorbing=(is_absorbing or (lambda s: si[s] in sh.absorb)),
        discount_rate=c(sh.gamma) if sh.gamma != 1 else 1.0)
    if explicit_lists:
        mdp._state_list = tuple(L)
        mdp._action_list = tuple(AL)
    return mdp


def sym_rewards(sx, sh, lo=-1, hi=1, per_next_state=True, tag='r'):
    rew = {}
    for s in range(sh.S):
        for a in sh.avail[s]:
            if per_next_state:
                for ns in sh.rows[(s, a)]:
                    rew[(s, a, ns)] = sx.real(f"{tag}_{s}_{a}_{ns}", lo, hi)
            else:
                v = sx.real(f"{tag}_{s}_{a}", lo, hi)
                for ns in sh.rows[(s, a)]:
                    rew[(s, a, ns)] = v
    return rew


def implicit_absorbing(sh, rew):
    """the documented rule: all available actions self-loop w.p. 1 with reward 0 (and >= 1 action).
    Symbolic rewards make this a symbolic condition (forks consistently with the code's own test)."""
    out = set(sh.absorb)
    for s in range(sh.S):
        if s in out or not sh.avail[s]:
            continue
        if all(sh.rows[(s, a)].get(s, 0) == 1 for a in sh.avail[s]):
            # only rewards of positive-probability outcomes count
            if all(bool(rew[(s, a, ns)] == 0) for a in sh.avail[s] for ns, p in sh.rows[(s, a)].items() if p > 0):
                out.add(s)
    return out


def bellman_optimal(sx, sh, rew, absorbing, tag='V', dead=()):
    """fresh V*, Q* constrained by the Bellman optimality equations of the masked model
    (absorbing => 0); unique for gamma < 1 and for proper shapes at gamma = 1."""
    c = sx.c
    g = sh.gamma
    V = {s: sx.fresh(f"{tag}{s}") for s in range(sh.S)}
    Q = {}
    for s in range(sh.S):
        if s in absorbing or s in dead or not sh.avail[s]:
            c.add(V[s].z == 0)
            for a in sh.avail[s]:
                Q[(s, a)] = 0
            continue
        qs = []
        for a in sh.avail[s]:
            q = core.ssum(sx.const(p) * (rew[(s, a, ns)] + sx.const(g) * (0 if (ns in absorbing or ns in dead) else V[ns]))
                          for ns, p in sh.rows[(s, a)].items() if p > 0)
            Q[(s, a)] = q
            qs.append(toz(q))
        c.add(V[s].z == zmax(qs))
    c.model = None
    return V, Q


def policy_value(sx, sh, rew, absorbing, pi, tag='W', dead=()):
    """fresh W solving the Bellman expectation equations for a (concrete or menu) policy pi[s][a]"""
    c = sx.c
    g = sh.gamma
    W = {s: sx.fresh(f"{tag}{s}") for s in range(sh.S)}
    for s in range(sh.S):
        if s in absorbing or s in dead or not sh.avail[s]:
            c.add(W[s].z == 0)
            continue
        v = core.ssum(pi[s][a] * core.ssum(sx.const(p) * (rew[(s, a, ns)] + sx.const(g) * (0 if (ns in absorbing or ns in dead) else W[ns]))
                                           for ns, p in sh.rows[(s, a)].items() if p > 0)
                      for a in sh.avail[s] if not (not is_sym(pi[s][a]) and pi[s][a] == 0))
        c.add(W[s].z == toz(v))
    c.model = None
    return W


# ---------------------------------------------------------------------------------------------
def curated_shapes():
    """small MDP skeletons chosen to contain: stochastic branching, cycles, state-dependent action
    sets, explicit and implicit absorbing states, multi-state initial distributions, zero entries"""
    H, Q1, Q3, T = F(1, 2), F(1, 4), F(3, 4), F(1, 3)
    out = []
    # 1-state self loop (never absorbing unless reward 0)
    out.append(Shape(1, 1, [[0]], {(0, 0): {0: 1}}, name='loop1'))
    # 2 states, goal explicit
    out.append(Shape(2, 2, [[0, 1], [0]], {(0, 0): {0: H, 1: H}, (0, 1): {1: 1}, (1, 0): {1: 1}}, absorb=[1], name='two-goal'))
    # 2 states cycle, no absorbing
    out.append(Shape(2, 2, [[0, 1], [0, 1]], {(0, 0): {1: 1}, (0, 1): {0: Q1, 1: Q3}, (1, 0): {0: 1}, (1, 1): {1: 1}},
                     s0={0: H, 1: H}, name='cycle2'))
    # 3 states chain with slip, state-dependent actions, implicit-absorbing candidate at 2
    out.append(Shape(3, 2, [[0, 1], [1], [0]], {(0, 0): {1: Q3, 0: Q1}, (0, 1): {2: H, 0: H}, (1, 1): {2: 1}, (2, 0): {2: 1}},
                     name='chain3-implicit'))
    # 3 states, explicit absorbing 2 with multi-state start (mass on absorbing)
    out.append(Shape(3, 2, [[0, 1], [0, 1], [0]], {(0, 0): {1: 1}, (0, 1): {0: T, 1: T, 2: T}, (1, 0): {2: 1}, (1, 1): {0: H, 2: H}, (2, 0): {0: 1}},
                     absorb=[2], s0={0: H, 2: H}, name='abs-start3'))
    # 3 states fully connected stochastic
    out.append(Shape(3, 2, [[0, 1]] * 3, {(0, 0): {0: Q1, 1: Q1, 2: H}, (0, 1): {1: 1}, (1, 0): {2: 1}, (1, 1): {0: H, 1: H},
                                         (2, 0): {0: 1}, (2, 1): {2: Q3, 0: Q1}}, s0={0: Q1, 1: Q1, 2: H}, name='full3'))
    return out


def generated_shapes(count, seed=20261003, smax=4, amax=3):
    """a reproducible family of further skeletons for the thorough tiers (a fixed pseudo-random construction, NOT sampling at
    check time: the same list on every run): 2..smax states, 1..amax actions, state-dependent action sets, successor rows from
    a menu of splits (incl. explicit zero entries), 0-2 explicitly absorbing states, multi-state initial distributions.
    Every state keeps at least one action and every listed state is reachable from the initial support."""
    import random as _r
    rng = _r.Random(seed)
    H, Q1, Q3, T = F(1, 2), F(1, 4), F(3, 4), F(1, 3)
    splits = [[F(1)], [H, H], [Q1, Q3], [T, 2 * T], [Q1, Q1, H], [F(1), F(0)]]
    out = []
    guard = 0
    while len(out) < count and guard < 50 * count:
        guard += 1
        S = rng.randint(2, smax)
        A = rng.randint(1, amax)
        avail = []
        for s_ in range(S):
            k = rng.randint(1, A)
            avail.append(sorted(rng.sample(range(A), k)))
        for a in range(A):                                         # every action exists somewhere
            if not any(a in av for av in avail):
                k = rng.randrange(S)
                avail[k] = sorted(set(avail[k]) | {a})
        rows = {}
        for s_ in range(S):
            for a in avail[s_]:
                sp = rng.choice([x for x in splits if len(x) <= S])
                tg = rng.sample(range(S), len(sp))
                rows[(s_, a)] = {t: p for t, p in zip(tg, sp)}
        absorb = rng.sample(range(S), rng.choice([0, 1, 1, 2]) if S > 2 else rng.choice([0, 1]))
        k0 = rng.randint(1, min(2, S))
        st = rng.sample(range(S), k0)
        s0 = {st[0]: F(1)} if k0 == 1 else {st[0]: Q1, st[1]: Q3}
        sh = Shape(S, A, avail, rows, absorb=absorb, s0=s0, name=f'gen{len(out)}')
        if sh.reach_from(list(s0), stop=set(absorb)) != set(range(S)):
            continue
        out.append(sh)
    return out


def proper_shapes():
    """goal-reaching skeletons (every policy reaches the absorbing state w.p. 1)"""
    H, Q1, Q3, T = F(1, 2), F(1, 4), F(3, 4), F(1, 3)
    out = []
    out.append(Shape(2, 2, [[0, 1], [0]], {(0, 0): {0: H, 1: H}, (0, 1): {1: 1}, (1, 0): {1: 1}}, absorb=[1], gamma=F(1), name='p-two'))
    out.append(Shape(3, 2, [[0, 1], [0, 1], [0]], {(0, 0): {1: 1}, (0, 1): {0: Q1, 2: Q3}, (1, 0): {2: 1}, (1, 1): {0: H, 2: H}, (2, 0): {2: 1}},
                     absorb=[2], gamma=F(1), name='p-three'))
    out.append(Shape(4, 2, [[0, 1], [0, 1], [0], [0]], {(0, 0): {1: H, 2: H}, (0, 1): {0: Q1, 3: Q3}, (1, 0): {3: 1}, (1, 1): {2: H, 0: Q1, 3: Q1},
                                                       (2, 0): {3: Q3, 2: Q1}, (3, 0): {3: 1}},
                     absorb=[3], gamma=F(1), s0={0: H, 1: Q1, 3: Q1}, name='p-four'))
    # goal absorbing only implicitly; rows list zero-probability successors explicitly
    out.append(Shape(3, 2, [[0, 1], [0, 1], [0]], {(0, 0): {1: 1, 2: 0}, (0, 1): {0: Q1, 2: Q3}, (1, 0): {2: 1, 0: 0}, (1, 1): {0: H, 2: H},
                                                   (2, 0): {2: 1, 1: 0}}, absorb=[], gamma=F(1), name='p-three-implicit-zero'))
    return out


# =============================================================================================
# POMDP shapes
class PShape(Shape):
    """Shape + observation kernel obs[(a, ns)] = {o: Fraction} over observation labels olabels"""

    def __init__(self, *a, obs=None, olabels=None, **kw):
        super().__init__(*a, **kw)
        self.obs = {k: dict(v) for k, v in obs.items()}
        self.olabels = list(olabels)
        for k, row in self.obs.items():
            assert sum(row.values()) == 1, (k, row)


def generated_pshapes(count, seed=20261004):
    """a reproducible family of further POMDP skeletons for the thorough tiers (fixed construction, the same list on every run):
    2-3 states, 1-2 actions available everywhere, 1-3 observations, rows and observation kernels from a menu of splits with
    zero entries, 0-1 absorbing states, one or two initial states"""
    import random as _r
    rng = _r.Random(seed)
    H, Q1, Q3, T = F(1, 2), F(1, 4), F(3, 4), F(1, 3)
    splits = [[F(1)], [H, H], [Q1, Q3], [T, 2 * T], [Q1, Q1, H], [F(1), F(0)], [F(17, 20), F(3, 20)]]
    out = []
    guard = 0
    while len(out) < count and guard < 50 * count:
        guard += 1
        S, A, nO = rng.randint(2, 3), rng.randint(1, 2), rng.randint(1, 3)
        rows = {}
        for s_ in range(S):
            for a in range(A):
                sp = rng.choice([x for x in splits if len(x) <= S])
                rows[(s_, a)] = dict(zip(rng.sample(range(S), len(sp)), sp))
        obs = {}
        for a in range(A):
            for ns in range(S):
                sp = rng.choice([x for x in splits if len(x) <= nO])
                obs[(a, ns)] = dict(zip(rng.sample(range(nO), len(sp)), sp))
        absorb = rng.sample(range(S), rng.choice([0, 0, 1]))
        k0 = rng.randint(1, 2)
        st = rng.sample(range(S), k0)
        s0 = {st[0]: F(1)} if k0 == 1 else {st[0]: Q1, st[1]: Q3}
        sh = PShape(S, A, [list(range(A))] * S, rows, absorb=absorb, s0=s0, gamma=rng.choice([H, F(9, 10)]), name=f'pgen{len(out)}',
                    obs=obs, olabels=['o%d' % k for k in range(nO)])
        if sh.reach_from(list(s0), stop=set(absorb)) != set(range(S)):
            continue
        out.append(sh)
    return out


def build_pomdp(sx, sh, rew, obs_override=None, observation_list=None):
    """a TabularPOMDP subclass instance whose methods read the shape's tables"""
    from msdm.core.pomdp import TabularPOMDP
    from msdm.core.distributions import DictDistribution
    L, AL, OL = sh.slabels, sh.alabels, sh.olabels
    si = {l: i for i, l in enumerate(L)}
    ai = {l: i for i, l in enumerate(AL)}
    c = sx.const
    obs = obs_override or {k: {o: c(p) for o, p in row.items()} for k, row in sh.obs.items()}

    class P(TabularPOMDP):
        discount_rate = c(sh.gamma) if sh.gamma != 1 else 1.0

        def initial_state_dist(self):
            return DictDistribution({L[s]: c(p) for s, p in sh.s0.items()})

        def actions(self, s):
            return tuple(AL[a] for a in sh.avail[si[s]])

        def is_absorbing(self, s):
            return si[s] in sh.absorb

        def reward(self, s, a, ns):
            return rew[(si[s], ai[a], si[ns])]

        def next_state_dist(self, s, a):
            return DictDistribution({L[ns]: c(p) for ns, p in sh.rows[(si[s], ai[a])].items()})

        def observation_dist(self, a, ns):
            return DictDistribution({OL[o]: p for o, p in obs[(ai[a], si[ns])].items()})
    if observation_list is not None:
        P.observation_list = list(observation_list)      # declared explicitly (as LoadUnload does), in the given order
    return P()


def pomdp_shapes():
    H, Q1, Q3, T = F(1, 2), F(1, 4), F(3, 4), F(1, 3)
    out = []
    # tiger-like: 2 states, listen keeps state, open resets; obs depends on action AND state (asymmetric)
    out.append(PShape(2, 2, [[0, 1], [0, 1]],
                      {(0, 0): {0: 1}, (1, 0): {1: 1}, (0, 1): {0: H, 1: H}, (1, 1): {0: Q1, 1: Q3}},
                      s0={0: H, 1: H}, gamma=F(9, 10), name='tiger-like',
                      obs={(0, 0): {0: F(17, 20), 1: F(3, 20)}, (0, 1): {0: F(1, 5), 1: F(4, 5)}, (1, 0): {0: H, 1: H}, (1, 1): {0: 1, 1: 0}},
                      olabels=['hear-left', 'hear-right']))
    # 3 states, explicit absorbing state 2, zero entries in T and O, 3 observations
    out.append(PShape(3, 2, [[0, 1], [0, 1], [0, 1]],
                      {(0, 0): {1: Q3, 0: Q1}, (0, 1): {2: H, 0: H}, (1, 0): {2: 1}, (1, 1): {0: T, 1: T, 2: T}, (2, 0): {2: 1}, (2, 1): {0: 1}},
                      absorb=[2], s0={0: Q3, 1: Q1}, gamma=F(1, 2), name='abs3',
                      obs={(0, 0): {0: 1}, (0, 1): {1: H, 2: H}, (0, 2): {2: 1}, (1, 0): {0: Q1, 1: Q3}, (1, 1): {1: 1}, (1, 2): {0: T, 1: T, 2: T}},
                      olabels=['o0', ('o', 1), 2]))
    # fully observable kernel (observation reveals the state), 2 states
    out.append(PShape(2, 2, [[0, 1], [0, 1]],
                      {(0, 0): {0: Q1, 1: Q3}, (0, 1): {0: 1}, (1, 0): {1: H, 0: H}, (1, 1): {1: 1}},
                      s0={0: Q1, 1: Q3}, gamma=F(1, 2), name='revealing2',
                      obs={(0, 0): {0: 1}, (0, 1): {1: 1}, (1, 0): {0: 1}, (1, 1): {1: 1}}, olabels=['see0', 'see1']))
    return out
