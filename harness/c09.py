"""C09 — finite-state-controller values equal the return of executing the controller (partly applicable)."""
from fractions import Fraction as F
import itertools

from symx import core, stubs
from symx.core import is_sym, ssum
from symx.stubs import facade
from harness.common import PShape, pomdp_shapes, generated_pshapes, build_pomdp, simplex

PROPERTY = 'C09'
FUNCTIONS = [
    'msdm.algorithms.fscgradientascent.stochastic_fsc_policy_evaluation_exact',
    'msdm.core.pomdp.finitestatecontroller.StochasticFiniteStateController.{__init__,initial_agentstate,action_dist,next_agentstate}',
    'msdm.algorithms.fscboundedpolicyiteration.{improve_node_matrix_constraint (LP construction + solution extraction),with_new_node,propose_escape_node}',
    'msdm.core.pomdp.tabularpomdp.TabularPOMDP.{transition_matrix,observation_matrix,state_action_reward_matrix,initial_state_vec,...}',
]
ASSUMPTIONS = [
    'torch facade: tensors are object arrays of symbolic reals; .inverse() of a concrete matrix is exact rational elimination',
    'rewards and the initial node distribution are symbolic; controller strategies, transition and observation kernels from rational menus',
    'the LP solver is replaced by a nondeterministic oracle: ANY point satisfying the constraints the real code built (G z <= h, A z = b) with arbitrary '
    'non-negative duals - the solver contract minus optimality',
]
OUTSIDE = ['monotone improvement of bounded policy iteration across iterations and everything that depends on the OPTIMAL LP solution (compiled HiGHS)',
           'the Adam / autograd loop of gradient ascent', 'controllers with more than 2 nodes, histories longer than 2 steps']

H, Q1, Q3, T3 = F(1, 2), F(1, 4), F(3, 4), F(1, 3)


def pshapes():
    out = list(pomdp_shapes())
    # absorbing state whose declared outgoing transition leaves it and pays: "the episode ends on entering it" matters
    out.append(PShape(2, 2, [[0, 1], [0, 1]], {(0, 0): {0: H, 1: H}, (0, 1): {1: 1}, (1, 0): {0: 1}, (1, 1): {1: Q1, 0: Q3}},
                      absorb=[1], s0={0: 1}, gamma=F(9, 10), name='absorbing-leaves',
                      obs={(0, 0): {0: Q3, 1: Q1}, (0, 1): {0: Q1, 1: Q3}, (1, 0): {0: 1, 1: 0}, (1, 1): {0: H, 1: H}}, olabels=['oa', 'ob']))
    return out


PSH = pshapes()
NCUR = len(PSH)
PSH = PSH + generated_pshapes(40)      # thorough tier only


def bounds(tier):
    return dict(pomdps=[s.name for s in PSH], controller_nodes='1..2', strategy_rows='menus (deterministic and properly stochastic)',
                initial_node_distribution='symbolic', histories='all action/observation histories of length <= 2')


def controllers(nA, nO, n):
    """(action strategy [n][nA], observation strategy [n][nA][nO][n]) menus"""
    arow = [[F(1)] + [F(0)] * (nA - 1), [F(0)] * (nA - 1) + [F(1)], [F(1, nA)] * nA, ([Q1, Q3] + [F(0)] * (nA - 2))[:nA]]
    if nA == 1:
        arow = [[F(1)]] * 4
    if n == 1:
        for a in arow:
            yield [a], [[[[F(1)] for _ in range(nO)] for _ in range(nA)]]
        return
    nrow = [[F(1), F(0)], [F(0), F(1)], [H, H], [Q1, Q3]]
    sel = [(0, 1, 0, 1), (2, 3, 1, 2), (3, 0, 2, 3), (1, 2, 3, 0)]
    for k, (a0, a1, r0, r1) in enumerate(sel):
        act = [arow[a0], arow[a1]]
        obs = [[[nrow[(r0 + a + o) % 4] for o in range(nO)] for a in range(nA)], [[nrow[(r1 + 2 * a + o) % 4] for o in range(nO)] for a in range(nA)]]
        yield act, obs


def _tens(sx, x):
    import numpy as rnp
    if sx.sym:
        from symx.symtorch import TORCH
        return TORCH.tensor(rnp.array(x, dtype=object))
    import torch
    return torch.tensor(rnp.array(x, dtype=float), dtype=torch.float64)


def _np(sx, x):
    import numpy as rnp
    if sx.sym:
        from symx.symnp import SymArray
        return SymArray(rnp.array(x, dtype=object))
    return rnp.array(x, dtype=float)


def evaluator(sx, shape, n, csel, form3=False):
    """the exact evaluation equals the expected discounted return of running the controller from each (node, state) pair,
    where an episode ends on entering an absorbing state"""
    sh = PSH[shape]
    L, AL, OL = sh.slabels, sh.alabels, sh.olabels
    nA, nO = sh.A, len(OL)
    g = sx.const(sh.gamma)
    rew = {(s, a, ns): sx.real(f"r_{s}_{a}_{ns}", -1, 1) for s in range(sh.S) for a in sh.avail[s] for ns in sh.rows[(s, a)]}
    act, obs = list(controllers(nA, nO, n))[csel]
    if form3:
        # the action-independent form p(n' | n, o) of the node strategy (a 3-dimensional tensor): action 0's slice for every action
        obs = [[obs[k][0] for _ in range(nA)] for k in range(n)]
    iota = simplex(sx, [f"iota{k}" for k in range(n)])
    from msdm.algorithms.fscgradientascent import stochastic_fsc_policy_evaluation_exact
    c = sx.const
    with facade(sx):
        pomdp = build_pomdp(sx, sh, rew)
        sl, al, ol = list(pomdp.state_list), list(pomdp.action_list), list(pomdp.observation_list)
        # strategies laid out in the POMDP's own action / observation order
        act_t = [[c(act[k][AL.index(a_)]) for a_ in al] for k in range(n)]
        obs_t = [[[[c(obs[k][AL.index(a_)][OL.index(o_)][m]) for m in range(n)] for o_ in ol] for a_ in al] for k in range(n)]
        if form3:
            obs_t = [[[c(obs[k][0][OL.index(o_)][m]) for m in range(n)] for o_ in ol] for k in range(n)]
        with sx.must_not_raise('evaluate'):
            res = stochastic_fsc_policy_evaluation_exact(pomdp, _tens(sx, act_t), _tens(sx, obs_t), fsc_initial_state=_tens(sx, iota))
        # oracle: Bellman expectation equations of the controller x POMDP cross product, absorbing states worth 0
        cx = sx.c

        def equations(tag, mask_absorbing):
            W_ = {(k, s): sx.fresh(f"{tag}{k}_{s}") for k in range(n) for s in range(sh.S)}
            _eqs(W_, mask_absorbing)
            return W_

        def _eqs(W, mask_absorbing):
          for k in range(n):
            for s in range(sh.S):
                if s in sh.absorb and mask_absorbing:
                    cx.add(W[(k, s)].z == 0)
                    continue
                tot = 0
                for a in range(nA):
                    pa = c(act[k][a])
                    if pa == 0:
                        continue
                    ra = ssum(c(p) * rew[(s, a, ns)] for ns, p in sh.rows[(s, a)].items() if p > 0)
                    fut = 0
                    for ns, p in sh.rows[(s, a)].items():
                        if p == 0:
                            continue
                        for o in range(nO):
                            po = sh.obs[(a, ns)].get(o, 0)
                            if po == 0:
                                continue
                            for m in range(n):
                                e = obs[k][a][o][m]
                                if e != 0:
                                    fut = fut + c(p) * c(po) * c(e) * W[(m, ns)]
                    tot = tot + pa * (ra + g * fut)
                cx.add(W[(k, s)].z == core.toz(tot))
        W = equations('W', True)
        # does "the episode ends on entering an absorbing state" make a difference on this POMDP?
        special = any(any(ns != s or True for ns in sh.rows[(s, a)]) for s in sh.absorb for a in sh.avail[s])
        U = equations('U', False) if sh.absorb else None
        cx.model = None
        V = res.state_controller_value
        if not sx.sym:
            V = V.numpy()
            res.state_value = res.state_value.numpy()
            res.expected_value = float(res.expected_value)
        for k in range(n):
            for s in range(sh.S):
                si = sl.index(L[s])
                tag = '[pomdp-with-absorbing-states]' if sh.absorb else ''
                sx.prove_eq(V[k, si], W[(k, s)], f'controller-value-is-return-of-executing-it{tag}', tol=F(1, 10**7))
                if U is not None:
                    # independent of how absorbing states are treated, the evaluator must at least solve the cross-product equations
                    sx.prove_eq(V[k, si], U[(k, s)], 'controller-value-solves-cross-product-equations', tol=F(1, 10**7))
        for s in range(sh.S):
            sx.prove_eq(res.state_value[sl.index(L[s])], ssum(iota[k] * V[k, sl.index(L[s])] for k in range(n)), f'state-value-mixes-initial-nodes[{s}]', tol=F(1, 10**7))
        sx.prove_eq(res.expected_value, ssum(c(p) * iota[k] * V[k, sl.index(L[s])] for s, p in sh.s0.items() for k in range(n)), 'expected-value', tol=F(1, 10**7))
        sx.observe('V', [[V[k, sl.index(L[s])] for s in range(sh.S)] for k in range(n)])


def execution(sx, shape, csel, length):
    """iterating the controller object (action_dist / next_agentstate from initial_agentstate) assigns every action/observation
    history the probability the controller defines (forward algorithm over nodes, conditioned on the action taken)"""
    sh = PSH[shape]
    L, AL, OL = sh.slabels, sh.alabels, sh.olabels
    nA, nO, n = sh.A, len(OL), 2
    rew = {(s, a, ns): sx.const(F(0)) for s in range(sh.S) for a in sh.avail[s] for ns in sh.rows[(s, a)]}
    act, obs = list(controllers(nA, nO, n))[csel]
    iota = simplex(sx, ['iota0', 'iota1'])
    from msdm.core.pomdp.finitestatecontroller import StochasticFiniteStateController
    c = sx.const
    with facade(sx):
        pomdp = build_pomdp(sx, sh, rew)
        al, ol = list(pomdp.action_list), list(pomdp.observation_list)
        act_t = [[c(act[k][AL.index(a_)]) for a_ in al] for k in range(n)]
        obs_t = [[[[c(obs[k][AL.index(a_)][OL.index(o_)][m]) for m in range(n)] for o_ in ol] for a_ in al] for k in range(n)]
        ctrl = StochasticFiniteStateController(pomdp, _np(sx, act_t), _np(sx, obs_t), _np(sx, iota))
        for hist in itertools.product(*([range(nA), range(nO)] * length)):
            acts, obss = hist[0::2], hist[1::2]
            # beta(n) = P(node = n | history so far): the distribution over nodes the controller defines
            beta = list(iota)
            ag = ctrl.initial_agentstate()
            for t in range(length):
                a, o = acts[t], obss[t]
                want_pa = ssum(beta[k] * c(act[k][a]) for k in range(n))
                got = dict(ctrl.action_dist(ag).items())[AL[a]]
                sx.prove_eq(got, want_pa, 'history-action-probability-is-the-controllers', tol=F(1, 10**7))
                if not bool(want_pa > 0):
                    break
                if OL[o] not in ol:
                    break
                joint = [beta[k] * c(act[k][a]) / want_pa for k in range(n)]          # P(node | history, a)
                beta = [ssum(joint[k] * c(obs[k][a][o][m]) for k in range(n)) for m in range(n)]
                ag = ctrl.next_agentstate(ag, AL[a], OL[o])
                for m in range(n):
                    sx.prove_eq(ag[m], beta[m], 'node-belief-is-conditional-on-the-action-taken', tol=F(1, 10**7))


def rollout(sx, shape, csel, start, cap):
    """executing the controller with run_on: the episode ends on entering an absorbing state (no step is taken from one)"""
    sh = PSH[shape]
    L, AL, OL = sh.slabels, sh.alabels, sh.olabels
    n = 2
    rew = {(s, a, ns): sx.real(f"r_{s}_{a}_{ns}", -1, 1) for s in range(sh.S) for a in sh.avail[s] for ns in sh.rows[(s, a)]}
    act, obs = list(controllers(sh.A, len(OL), n))[csel]
    from msdm.core.pomdp.finitestatecontroller import StochasticFiniteStateController
    from symx.stubs import NondetStream
    c = sx.const
    with facade(sx):
        pomdp = build_pomdp(sx, sh, rew)
        al, ol = list(pomdp.action_list), list(pomdp.observation_list)
        act_t = [[c(act[k][AL.index(a_)]) for a_ in al] for k in range(n)]
        obs_t = [[[[c(obs[k][AL.index(a_)][OL.index(o_)][m]) for m in range(n)] for o_ in ol] for a_ in al] for k in range(n)]
        ctrl = StochasticFiniteStateController(pomdp, _np(sx, act_t), _np(sx, obs_t), _np(sx, [c(F(1)), c(F(0))]))
        with sx.must_not_raise('run_on'):
            traj = ctrl.run_on(pomdp, initial_state=L[start], max_steps=cap, rng=NondetStream(2))
        steps = traj[:-1]
        sx.prove(traj[0].state == L[start], 'starts-at-given-state')
        for t, st in enumerate(steps):
            sx.prove(L.index(st.state) not in sh.absorb, 'no-step-is-taken-from-an-absorbing-state')
            s, a, ns = L.index(st.state), AL.index(st.action), L.index(st.nextstate)
            sx.prove(sh.rows[(s, a)].get(ns, 0) > 0, 'real-transition')
            sx.prove_eq(st.reward, rew[(s, a, ns)], 'model-reward', tol=0)
        fin = L.index(traj[-1].state)
        sx.prove(fin in sh.absorb or len(steps) == cap, 'episode-ends-at-absorbing-state-or-cap')
        if start in sh.absorb:
            sx.prove(len(steps) == 0, 'absorbing-start-gives-the-empty-history')


class _MenuRng:
    """stands in for numpy's Generator in FSCBoundedPolicyIteration.train_on: uniform(lo, hi, size) fills the array with rationals from a
    fixed menu inside [lo, hi] (which controller is sampled is irrelevant for what the learner REPORTS about it)"""
    MENU = [F(1), F(3, 2), F(2), F(5, 4), F(7, 4), F(9, 8), F(11, 8)]

    def __init__(self, seed=None):
        self.k = 0

    def uniform(self, lo, hi, size=None):
        import numpy as rnp
        from symx.symnp import SymArray
        shape = size if isinstance(size, tuple) else (size,)
        out = rnp.empty(shape, dtype=object)
        for idx in rnp.ndindex(*shape):
            out[idx] = self.MENU[self.k % len(self.MENU)]
            self.k += 1
        return SymArray(out)


def bpi_reported_value(sx, shape, n):
    """bounded policy iteration with an iteration budget of 0 (no linear program is solved): the value it reports is the initial-
    distribution expectation of the returned table at the returned controller's initial node, and that node is a best one"""
    sh = PSH[shape]
    L = sh.slabels
    rew = {(s, a, ns): sx.real(f"r_{s}_{a}_{ns}", -1, 1) for s in range(sh.S) for a in sh.avail[s] for ns in sh.rows[(s, a)]}
    from msdm.algorithms.fscboundedpolicyiteration import FSCBoundedPolicyIteration
    c = sx.const
    with facade(sx):
        pomdp = build_pomdp(sx, sh, rew)
        sl = list(pomdp.state_list)
        if sx.sym:
            class _R:
                default_rng = staticmethod(lambda seed=None: _MenuRng(seed))
            stubs.NP.random = _R()
        try:
            with sx.must_not_raise('train_on'):
                res = FSCBoundedPolicyIteration(controller_state_count=n, iterations=0, seed=5).train_on(pomdp)
        finally:
            if sx.sym:
                try:
                    del stubs.NP.random
                except AttributeError:
                    pass
        V = res.state_controller_value
        iota = list(res.policy.initial_state_dist)
        sx.prove_eq(ssum(iota), 1, 'initial-node-distribution-normalised')
        s0 = {sl.index(L[s]): c(p) for s, p in sh.s0.items()}
        node_val = [ssum(p * V[k, si] for si, p in s0.items()) for k in range(n)]
        sx.prove_eq(res.value, ssum(iota[k] * node_val[k] for k in range(n)), 'reported-value-is-evaluation-at-the-initial-node-and-distribution')
        for k in range(n):
            sx.prove_le(node_val[k], res.value, f'initial-node-is-a-best-node[{k}]', tol=F(1, 10**9))


def jobs(tier):
    o = dict(timeout_ms=15000, budget_s=(120 if tier == 'quick' else 900), max_paths=5000)
    if tier != 'quick':
        for i in range(NCUR, len(PSH)):
            sh = PSH[i]
            nA, nO = sh.A, len(sh.olabels)
            ncs = len(list(controllers(nA, nO, 2)))
            for k in range(min(ncs, 3)):
                yield ('evaluator', dict(shape=i, n=2, csel=k), o)
            yield ('execution', dict(shape=i, csel=i % 4, length=2), o)
            if len([p for p in sh.s0.values() if p > 0]) >= 2:
                yield ('bpi_reported_value', dict(shape=i, n=2), o)
    for i, sh in enumerate(PSH[:NCUR]):
        nA, nO = sh.A, len(sh.olabels)
        for n in (1, 2):
            for k in range(len(list(controllers(nA, nO, n)))):
                yield ('evaluator', dict(shape=i, n=n, csel=k), o)
                if n == 2 and nA >= 2 and nO >= 2:
                    yield ('evaluator', dict(shape=i, n=n, csel=k, form3=True), o)
        for k in range(4):
            yield ('execution', dict(shape=i, csel=k, length=2 if tier == 'quick' else 3), o)
        for st in sorted(set([0] + list(sh.absorb))):
            for k in (0, 2):
                yield ('rollout', dict(shape=i, csel=k, start=st, cap=2), o)
        if len([p for p in sh.s0.values() if p > 0]) >= 2:
            for n in (2, 3):
                yield ('bpi_reported_value', dict(shape=i, n=n), o)
        for n in (1, 2):
            for node in range(n):
                yield ('lp_construction', dict(shape=i, n=n, node=node), o)
                yield ('lp_extraction', dict(shape=i, n=n, node=node), dict(o, cost=5))
            for bs in range(4):
                yield ('new_node', dict(shape=i, n=n, bsel=bs), o)


# ---------------------------------------------------------------------------------------------
# bounded policy iteration: LP construction, extraction of strategies from ANY feasible LP point, node addition
class _Stop(BaseException):
    pass


def _vtable(sx, sh, n, symbolic):
    if symbolic:
        return [[sx.real(f"V_{k}_{s}", -10, 10) for s in range(sh.S)] for k in range(n)]
    menu = [F(1), F(-1, 2), F(2), F(0), F(-3, 2), F(1, 4), F(3), F(-1)]
    return [[sx.const(menu[(3 * k + s) % len(menu)]) for s in range(sh.S)] for k in range(n)]


def lp_construction(sx, shape, n, node):
    """the LP handed to the solver is Poupart & Boutilier's table-4 program (variables c_{a,o,m} then epsilon)"""
    sh = PSH[shape]
    L, AL, OL = sh.slabels, sh.alabels, sh.olabels
    g = sx.const(sh.gamma)
    rew = {(s, a, ns): sx.real(f"r_{s}_{a}_{ns}", -1, 1) for s in range(sh.S) for a in sh.avail[s] for ns in sh.rows[(s, a)]}
    from msdm.algorithms.fscboundedpolicyiteration import improve_node_matrix_constraint
    from msdm.core.algorithmclasses import Result
    Vt = _vtable(sx, sh, n, True)
    got = {}

    def solver(p, G, h, A, b):
        got.update(p=p, G=G, h=h, A=A, b=b)
        raise _Stop()
    with facade(sx):
        pomdp = build_pomdp(sx, sh, rew)
        sl, al, ol = list(pomdp.state_list), list(pomdp.action_list), list(pomdp.observation_list)
        nA, nO, nS = len(al), len(ol), len(sl)
        V = _np(sx, [[Vt[k][L.index(s_)] for s_ in sl] for k in range(n)])
        try:
            with sx.must_not_raise('build-lp'):
                improve_node_matrix_constraint(pomdp, V, node, solver=solver)
        except _Stop:
            pass
        import numpy as rnp
        p, G, h, A, b = (rnp.asarray(got[k]) for k in 'pGhAb')
        ncan = nA * nO * n
        idx = lambda a, o, m: (a * nO + o) * n + m
        ostar = nO - 1
        sx.prove(p.shape == (ncan + 1,) and G.shape == (nS + ncan, ncan + 1) and A.shape == (nA * (nO - 1) + 1, ncan + 1), 'lp-shapes')
        for j in range(ncan + 1):
            sx.prove_eq(p[j], -1 if j == ncan else 0, f'objective-maximises-epsilon', tol=0)
        # value-improvement rows: eps - sum_a c_a R(s,a) - g sum T O c V[m,s'] <= -V[node,s]
        for si, s_ in enumerate(sl):
            s = L.index(s_)
            sx.prove_eq(h[si], -Vt[node][s], 'improvement-row-rhs', tol=0)
            sx.prove_eq(G[si, ncan], 1, 'improvement-row-epsilon-coefficient', tol=0)
            for ai, a_ in enumerate(al):
                a = AL.index(a_)
                R_sa = ssum(sx.const(pp) * rew[(s, a, ns)] for ns, pp in sh.rows[(s, a)].items() if pp > 0)
                for oi, o_ in enumerate(ol):
                    o = OL.index(o_)
                    for m in range(n):
                        ev = ssum(sx.const(pp) * sx.const(sh.obs[(a, ns)].get(o, 0)) * Vt[m][ns] for ns, pp in sh.rows[(s, a)].items()
                                  if pp > 0 and sh.obs[(a, ns)].get(o, 0) != 0)
                        want = -g * ev - (R_sa if oi == ostar else 0)
                        sx.prove_eq(G[si, idx(ai, oi, m)], want, 'improvement-row-coefficient', tol=F(1, 10**9))
        # non-negativity rows
        for j in range(ncan):
            for j2 in range(ncan + 1):
                sx.prove_eq(G[nS + j, j2], -1 if j2 == j else 0, 'nonnegativity-rows', tol=0)
            sx.prove_eq(h[nS + j], 0, 'nonnegativity-rhs', tol=0)
        # equalities: sum_m c_{a,o,m} = sum_m c_{a,o*,m} for every a and o != o*; sum_a sum_m c_{a,o*,m} = 1
        rows = {}
        for r in range(A.shape[0]):
            key = tuple((j, A[r, j]) for j in range(ncan + 1) if not (not is_sym(A[r, j]) and A[r, j] == 0))
            rows[key] = b[r]
        want_rows = {}
        for ai in range(nA):
            for oi in range(nO):
                if oi == ostar:
                    continue
                key = tuple(sorted([(idx(ai, oi, m), 1) for m in range(n)] + [(idx(ai, ostar, m), -1) for m in range(n)]))
                want_rows[key] = 0
        want_rows[tuple(sorted((idx(ai, ostar, m), 1) for ai in range(nA) for m in range(n)))] = 1
        got_rows = {tuple(sorted((j, int(v)) for j, v in k)): bb for k, bb in rows.items()}
        sx.prove(got_rows == want_rows, 'equality-constraints-are-table-4')


def lp_extraction(sx, shape, n, node):
    """for EVERY feasible point of the LP the extracted action / node-transition strategies are probability distributions"""
    sh = PSH[shape]
    L, AL, OL = sh.slabels, sh.alabels, sh.olabels
    menu = [F(1), F(-1, 2), F(1, 4), F(-1), F(3, 4), F(0), F(1, 2), F(-1, 4)]
    rew = {}
    kk = 0
    for s in range(sh.S):
        for a in sh.avail[s]:
            for ns in sh.rows[(s, a)]:
                rew[(s, a, ns)] = sx.const(menu[kk % len(menu)])
                kk += 1
    from msdm.algorithms.fscboundedpolicyiteration import improve_node_matrix_constraint, with_new_node
    from msdm.core.algorithmclasses import Result
    Vt = _vtable(sx, sh, n, False)
    import numpy as rnp

    def solver(p, G, h, A, b):
        # nondeterministic LP oracle: any feasible point, arbitrary non-negative duals
        m_ = len(p)
        z = [sx.real(f"z{j}", -50, 50) for j in range(m_)]
        G_, A_ = rnp.asarray(G), rnp.asarray(A)
        for r in range(G_.shape[0]):
            sx.assume(ssum(G_[r, j] * z[j] for j in range(m_) if not (not is_sym(G_[r, j]) and G_[r, j] == 0)) <= rnp.asarray(h)[r])
        for r in range(A_.shape[0]):
            sx.assume(ssum(A_[r, j] * z[j] for j in range(m_) if not (not is_sym(A_[r, j]) and A_[r, j] == 0)) == rnp.asarray(b)[r])
        duals = [sx.real(f"dual{r}", 0, 10) for r in range(G_.shape[0])]
        return Result(solution=_np(sx, z), inequality_dual_values=_np(sx, duals))
    with facade(sx):
        pomdp = build_pomdp(sx, sh, rew)
        sl, al, ol = list(pomdp.state_list), list(pomdp.action_list), list(pomdp.observation_list)
        nA, nO = len(al), len(ol)
        V = _np(sx, [[Vt[k][L.index(s_)] for s_ in sl] for k in range(n)])
        with sx.must_not_raise('improve-node'):
            r = improve_node_matrix_constraint(pomdp, V, node, solver=solver)
        a_s, o_s = rnp.asarray(r.action_strategy), rnp.asarray(r.observation_strategy)
        sx.prove_eq(ssum(a_s[a] for a in range(nA)), 1, 'action-strategy-sums-to-1')
        for a in range(nA):
            sx.prove_le(0, a_s[a], 'action-strategy-non-negative', tol=F(1, 10**9))
            for o in range(nO):
                sx.prove_eq(ssum(o_s[a, o, m] for m in range(n)), 1, 'node-transition-row-sums-to-1', tol=F(1, 10**6))
                for m in range(n):
                    sx.prove_le(0, o_s[a, o, m], 'node-transition-non-negative', tol=F(1, 10**6))
        # installing the node keeps the controller row-stochastic
        fa = _np(sx, [[sx.const(F(1, nA))] * nA for _ in range(n)])
        fs = _np(sx, [[[[sx.const(F(1, n))] * n for _ in range(nO)] for _ in range(nA)] for _ in range(n)])
        na, ns_ = r.add_to_fsc(fa, fs, inplace=False)
        na, ns_ = rnp.asarray(na), rnp.asarray(ns_)
        for k in range(n):
            sx.prove_eq(ssum(na[k, a] for a in range(nA)), 1, 'controller-action-rows-stay-distributions')
            for a in range(nA):
                for o in range(nO):
                    sx.prove_eq(ssum(ns_[k, a, o, m] for m in range(n)), 1, 'controller-node-rows-stay-distributions', tol=F(1, 10**6))


def new_node(sx, shape, n, bsel=None):
    """with_new_node / propose_escape_node: the enlarged controller is row-stochastic for every belief"""
    sh = PSH[shape]
    L, AL, OL = sh.slabels, sh.alabels, sh.olabels
    rew = {(s, a, ns): sx.const(F((s + 2 * a + ns) % 3 - 1)) for s in range(sh.S) for a in sh.avail[s] for ns in sh.rows[(s, a)]}
    from msdm.algorithms.fscboundedpolicyiteration import propose_escape_node
    import numpy as rnp
    from msdm.algorithms.fscgradientascent import stochastic_fsc_policy_evaluation_exact
    c = sx.const
    if bsel is None:
        bel = simplex(sx, [f"b{s}" for s in range(sh.S)])
    else:
        menu = [[1, 0, 0], [F(1, 2), F(1, 2), 0], [F(1, 3), F(1, 3), F(1, 3)], [0, F(1, 4), F(3, 4)]][bsel][:sh.S]
        tot = sum(menu)
        bel = [c(F(x) / tot) for x in menu]
        sx.real('unused', 0, 1)
    with facade(sx):
        pomdp = build_pomdp(sx, sh, rew)
        sl, al, ol = list(pomdp.state_list), list(pomdp.action_list), list(pomdp.observation_list)
        nA, nO = len(al), len(ol)
        # a genuine controller value table: the exact evaluation of a menu controller (concrete here)
        act, obs = list(controllers(sh.A, len(OL), n))[1 % len(list(controllers(sh.A, len(OL), n)))]
        act_t = [[c(act[k][AL.index(a_)]) for a_ in al] for k in range(n)]
        obs_t = [[[[c(obs[k][AL.index(a_)][OL.index(o_)][m]) for m in range(n)] for o_ in ol] for a_ in al] for k in range(n)]
        Vraw = stochastic_fsc_policy_evaluation_exact(pomdp, _tens(sx, act_t), _tens(sx, obs_t)).state_controller_value
        V = Vraw.numpy() if hasattr(Vraw, 'numpy') else Vraw
        with sx.must_not_raise('propose'):
            r = propose_escape_node(pomdp, _np(sx, [bel[L.index(s_)] for s_ in sl]), V)
            fa = _np(sx, [[sx.const(F(1, nA))] * nA for _ in range(n)])
            fs = _np(sx, [[[[sx.const(F(1, n))] * n for _ in range(nO)] for _ in range(nA)] for _ in range(n)])
            na, ns_ = r.add_to_fsc(fa, fs)
        na, ns_ = rnp.asarray(na), rnp.asarray(ns_)
        sx.prove(na.shape == (n + 1, nA) and ns_.shape == (n + 1, nA, nO, n + 1), 'enlarged-shapes')
        for k in range(n + 1):
            sx.prove_eq(ssum(na[k, a] for a in range(nA)), 1, 'enlarged-action-rows-are-distributions')
            for a in range(nA):
                sx.prove_le(0, na[k, a], 'enlarged-action-non-negative')
                for o in range(nO):
                    sx.prove_eq(ssum(ns_[k, a, o, m] for m in range(n + 1)), 1, 'enlarged-node-rows-are-distributions')
        for k in range(n):
            for a in range(nA):
                for o in range(nO):
                    sx.prove_eq(ns_[k, a, o, n], 0, 'old-nodes-never-enter-the-new-node', tol=0)
