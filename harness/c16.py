"""C16 — multichain policy iteration, when it reports convergence, is gain/value optimal."""
from fractions import Fraction as F
import z3

from symx import core, stubs
from symx.core import is_sym, ssum, toz
from symx.stubs import facade
from harness.common import Shape, curated_shapes, generated_shapes, build_mdp, sym_rewards, implicit_absorbing, bellman_optimal, policy_value

PROPERTY = 'C16'
FUNCTIONS = ['msdm.algorithms.multichainpolicyiteration.MultichainPolicyIteration.plan_on',
             'msdm.algorithms.multichainpolicyiteration.{multichain_policy_iteration_vectorized,independent_row_indices}',
             'msdm.core.mdp.tabularmdp.TabularMarkovDecisionProcess.{transition_matrix,reward_matrix,action_matrix,absorbing_state_vec}']
ASSUMPTIONS = [
    'rewards symbolic; transition probabilities and discount from rational menus, so the chain analysis of each candidate policy (floyd_warshall, np.unique, '
    'rank decisions in independent_row_indices) runs on concrete data while gain and bias stay linear in the rewards',
    'np.linalg.solve of a concrete Gram matrix with a symbolic right-hand side is exact rational elimination; argmax / isclose on symbolic values fork',
    'undiscounted oracle: fresh (g, h) satisfying the nested multichain optimality equations (Puterman 9.1.1), whose g component is unique',
]
OUTSIDE = ['more than 3 states', 'rank decisions on near-singular symbolic matrices (inputs are concrete here)', 'iteration caps so small that the loop never reaches the bias step (UnboundLocalError in the repository: counted as cut)', 'rounding']

H, Q1, Q3 = F(1, 2), F(1, 4), F(3, 4)


def shapes():
    out = []
    out.append(Shape(2, 2, [[0, 1], [0, 1]], {(0, 0): {0: 1}, (0, 1): {1: 1}, (1, 0): {1: 1}, (1, 1): {1: 1}}, absorb=[1], gamma=F(1), name='stay-or-quit'))
    out.append(Shape(2, 2, [[0, 1], [0, 1]], {(0, 0): {1: 1}, (0, 1): {0: Q1, 1: Q3}, (1, 0): {0: 1}, (1, 1): {1: 1}}, s0={0: H, 1: H}, gamma=F(1), name='unichain-cycle2'))
    out.append(Shape(3, 2, [[0, 1], [0], [0]], {(0, 0): {1: 1}, (0, 1): {2: 1}, (1, 0): {1: 1}, (2, 0): {2: 1}}, gamma=F(1), name='multichain-two-loops'))
    out.append(Shape(3, 2, [[0, 1], [0, 1], [0]], {(0, 0): {1: H, 0: H}, (0, 1): {2: 1}, (1, 0): {0: 1}, (1, 1): {1: Q1, 2: Q3}, (2, 0): {2: 1}}, absorb=[2], gamma=F(1),
                     name='transient-plus-absorbing'))
    # machine maintenance: 'ok' can only run, 'worn' can patch (stays worn) or service (ok again) - three actions overall, each
    # state lacks at least one of them, no absorbing state
    out.append(Shape(2, 3, [[1], [0, 2]], {(0, 1): {1: 1}, (1, 0): {1: 1}, (1, 2): {0: 1}}, gamma=F(1), name='machine-maintenance'))
    return out


UND = shapes()
DISC = curated_shapes()
NCUR = len(DISC)
DISC = DISC + [g for g in generated_shapes(60, smax=3, amax=3) if all(len(av) > 0 for av in g.avail)]      # thorough tier only


def bounds(tier):
    return dict(undiscounted=[s.name for s in UND], discounted=[s.name for s in DISC[:NCUR]] + ([f'{len(DISC) - NCUR} generated skeletons'] if tier != 'quick' else []), gammas=['1/2', '9/10', '1'], iteration_caps=['2', '3', '|A|^S+3'])


def _run(sx, sh, rew, cap, warm=False):
    from msdm.algorithms.multichainpolicyiteration import MultichainPolicyIteration
    mdp = build_mdp(sx, sh, rew)
    planner = MultichainPolicyIteration(max_iterations=cap)
    if warm:
        # the same planner object first plans on another problem of the same size and discount (constant rewards that make the
        # first listed action optimal everywhere, so the all-first-action policy is evaluated there)
        rw = {k: sx.const(F(1 if k[1] == sh.avail[k[0]][0] else 0)) for k in rew}
        planner.plan_on(build_mdp(sx, sh, rw))
    try:
        with sx.must_not_raise('plan_on', allowed=(UnboundLocalError,)):
            return planner.plan_on(mdp)
    except UnboundLocalError:
        sx.cut('iteration cap reached before the first bias step')


def _policy(sx, sh, res, absorbing):
    L, AL = sh.slabels, sh.alabels
    pol = {}
    for s in range(sh.S):
        d = dict(res.policy.action_dist(L[s]).items())
        probs = {a: d.get(AL[a], 0) for a in range(sh.A)}
        sx.prove_eq(ssum(probs.values()), 1, f'policy-row-is-a-distribution[{s}]')
        for a in range(sh.A):
            if a not in sh.avail[s]:
                sx.prove(probs[a] == 0, f'policy-only-on-available-actions[{s},{a}]')
        sup = [a for a in sh.avail[s] if bool(probs[a] > 0)]
        pol[s] = {a: (probs[a] if a in sup else 0) for a in sh.avail[s]}
        for a in sup:
            pol[s][a] = F(1, len(sup)) if bool(sx.close(probs[a], F(1, len(sup)))) else probs[a]
    return pol


def discounted(sx, shape, gamma, cap=None, und=False, warm=False):
    """und=True: the skeletons of the undiscounted runs (several self-looping non-absorbing states) with a discount below 1"""
    sh = (UND if und else DISC)[shape].with_(gamma=F(gamma))
    g = sh.gamma
    L = sh.slabels
    rew = sym_rewards(sx, sh, -1, 1)
    cap = cap or (sh.A ** sh.S) + 3
    with facade(sx):
        res = _run(sx, sh, rew, cap, warm)
        if not res.converged:
            sx.cut('iteration cap')
        absorbing = implicit_absorbing(sh, rew)
        Vs, Qs = bellman_optimal(sx, sh, rew, absorbing)
        iso = F(1, 10**8) + F(1, 10**5) * (1 / (1 - g))      # the planner's own tie band (np.isclose defaults on values <= 1/(1-g))
        vtol = 2 * iso / (1 - g)
        for s in range(sh.S):
            sx.prove_eq(res.state_value[L[s]], 0 if s in absorbing else Vs[s], f'discounted-value-is-optimal[{s}]', tol=vtol)
        pol = _policy(sx, sh, res, absorbing)
        W = policy_value(sx, sh, rew, absorbing, pol)
        for s in range(sh.S):
            if s not in absorbing:
                sx.prove_eq(W[s], Vs[s], f'policy-attains-the-optimal-value[{s}]', tol=2 * vtol / (1 - g))
        sx.observe('V', [res.state_value[L[s]] for s in range(sh.S)])


def undiscounted(sx, shape, cap=None, warm=False):
    sh = UND[shape]
    L = sh.slabels
    rew = sym_rewards(sx, sh, -1, 1, per_next_state=False)
    cap = cap or (sh.A ** sh.S) + 3
    with facade(sx):
        res = _run(sx, sh, rew, cap, warm)
        if not res.converged:
            sx.cut('iteration cap / no fixed point')
        absorbing = implicit_absorbing(sh, rew)
        c = sx.c
        r = {(s, a): rew[(s, a, next(iter(sh.rows[(s, a)])))] for s in range(sh.S) for a in sh.avail[s]}
        # optimal gain: nested multichain optimality equations
        G = {s: sx.fresh(f"g{s}") for s in range(sh.S)}
        Hh = {s: sx.fresh(f"h{s}") for s in range(sh.S)}
        for s in range(sh.S):
            if s in absorbing:
                c.add(G[s].z == 0, Hh[s].z == 0)
                continue
            pg = {a: toz(ssum(sx.const(p) * G[ns] for ns, p in sh.rows[(s, a)].items() if p > 0)) for a in sh.avail[s]}
            ph = {a: toz(r[(s, a)] + ssum(sx.const(p) * Hh[ns] for ns, p in sh.rows[(s, a)].items() if p > 0)) for a in sh.avail[s]}
            c.add(z3.And(*[G[s].z >= pg[a] for a in sh.avail[s]]), z3.Or(*[G[s].z == pg[a] for a in sh.avail[s]]))
            c.add(z3.And(*[z3.Implies(G[s].z == pg[a], G[s].z + Hh[s].z >= ph[a]) for a in sh.avail[s]]),
                  z3.Or(*[z3.And(G[s].z == pg[a], G[s].z + Hh[s].z == ph[a]) for a in sh.avail[s]]))
        c.model = None
        for s in range(sh.S):
            sx.prove_eq(res.state_gain[L[s]], G[s], f'gain-is-the-optimal-average-reward[{s}]', tol=F(1, 10**4))   # the planner's own tie band: isclose rtol 1e-5 on bias values
        sx.prove_eq(res.initial_gain, ssum(sx.const(p) * G[s] for s, p in sh.s0.items()), 'initial-gain', tol=F(1, 10**4))
        # the returned policy attains the optimal gain: evaluation equations of the (concrete) policy
        pol = _policy(sx, sh, res, absorbing)
        Gp = {s: sx.fresh(f"gp{s}") for s in range(sh.S)}
        Hp = {s: sx.fresh(f"hp{s}") for s in range(sh.S)}
        for s in range(sh.S):
            if s in absorbing:
                c.add(Gp[s].z == 0, Hp[s].z == 0)
                continue
            c.add(Gp[s].z == toz(ssum(pol[s][a] * sx.const(p) * Gp[ns] for a in sh.avail[s] for ns, p in sh.rows[(s, a)].items() if p > 0 and pol[s][a] != 0)))
            c.add(Gp[s].z + Hp[s].z == toz(ssum(pol[s][a] * (r[(s, a)] + ssum(sx.const(p) * Hp[ns] for ns, p in sh.rows[(s, a)].items() if p > 0))
                                                 for a in sh.avail[s] if pol[s][a] != 0)))
        c.model = None
        for s in range(sh.S):
            sx.prove_eq(Gp[s], G[s], f'policy-attains-the-optimal-gain[{s}]', tol=F(1, 10**4))
        sx.observe('gain', [res.state_gain[L[s]] for s in range(sh.S)])


def jobs(tier):
    o = dict(timeout_ms=15000, budget_s=(120 if tier == 'quick' else 1200), max_paths=20000)
    for i, sh in enumerate(UND):
        for cap in [None, 2, 3]:
            yield ('undiscounted', dict(shape=i, cap=cap), dict(o, cost=5))
    for i, sh in enumerate(UND):
        yield ('undiscounted', dict(shape=i, warm=True), dict(o, cost=5))
        yield ('discounted', dict(shape=i, gamma='9/10', und=True, warm=True), dict(o, cost=5))
    if tier != 'quick':
        for i in range(NCUR, len(DISC)):
            yield ('discounted', dict(shape=i, gamma='9/10'), dict(o, cost=5))
            yield ('discounted', dict(shape=i, gamma='999/1000'), dict(o, cost=5))
    for i, sh in enumerate(DISC[:NCUR]):
        if tier == 'quick' and sh.name == 'full3':
            continue
        for g in ['1/2', '9/10']:
            yield ('discounted', dict(shape=i, gamma=g), dict(o, cost=5))
        yield ('discounted', dict(shape=i, gamma='1/2', cap=2), o)
    # discounts next to 1 on skeletons with several self-looping states: rows of (gamma P - I) have norm 1 - gamma
    for i, sh in enumerate(UND):
        for g in (['999/1000', '9/10'] if tier == 'quick' else ['999/1000', '995/1000', '99/100', '9/10', '1/2']):
            yield ('discounted', dict(shape=i, gamma=g, und=True), dict(o, cost=5))
