"""C06 — matrix / table / wrapper views of an MDP agree with its functional definition."""
from fractions import Fraction as F
import itertools

from symx import core
from symx.core import is_sym, ssum
from symx.stubs import facade
from harness.common import Shape, curated_shapes, proper_shapes, build_mdp, sym_rewards

PROPERTY = 'C06'
FUNCTIONS = [
    'msdm.core.mdp.mdp.MarkovDecisionProcess.reachable_states',
    'msdm.core.mdp.tabularmdp.TabularMarkovDecisionProcess.{state_list,action_list,transition_matrix,transition_table,'
    'action_matrix,reward_matrix,reward_table,state_action_reward_matrix,state_action_reward_table,initial_state_vec,'
    'absorbing_state_vec,dead_end_state_vec,reachable_state_vec,from_matrices}',
    'msdm.core.mdp.quickmdp.{QuickMDP,QuickTabularMDP}.*', 'msdm.core.mdp.tables.*', 'msdm.core.table.tableindex.domaintuple',
    'msdm.algorithms.valueiteration.ValueIteration.plan_on (round-trip planning equality)',
]
ASSUMPTIONS = [
    'numpy facade (object arrays of symbolic reals)', 'up to two transition rows per case carry symbolic probabilities '
    '(p, 1-p over two candidate successors, endpoints 0 and 1 included so the solver chooses zero entries); the other rows are menu rationals',
    'rewards and initial weights symbolic', 'labels from menus of hashables incl. an unsortable mix',
]
OUTSIDE = ['more than 4 states / 2 actions', 'more than two symbolic rows at once', 'rounding']

BASE = curated_shapes() + proper_shapes()
# an absorbing state whose (never expanded) successor is reachable in no other way
BASE.append(Shape(3, 1, [[0], [0], [0]], {(0, 0): {1: F(1, 4), 0: F(3, 4)}, (1, 0): {2: F(1)}, (2, 0): {2: F(1)}}, absorb=[1], name='absorbing-exit'))
NCUR = len(BASE)
from harness.common import generated_shapes as _gen
BASE = BASE + _gen(40, smax=4, amax=2)      # thorough tier only (indices >= NCUR)


def _fd(**kw):
    from frozendict import frozendict
    return frozendict(kw)


def label_menu(kind, n):
    if kind == 'int':
        return list(range(n))
    if kind == 'str':
        return ['s%d' % i for i in range(n)]
    if kind == 'tuple':
        return [(i // 2, i % 2) for i in range(n)]
    if kind == 'frozendict':
        return [_fd(x=i, y=0) for i in range(n)]
    if kind == 'mixed':  # unsortable
        return [0, 'a', (1, 2), _fd(x=1)][:n]
    raise ValueError(kind)


def alabel_menu(kind, n):
    if kind in ('int',):
        return list(range(n))
    if kind == 'mixed':
        return [0, 'b', (1,)][:n]
    if kind == 'tuple':
        return [('a', i) for i in range(n)]
    return ['a%d' % i for i in range(n)]


def bounds(tier):
    return dict(skeletons=[s.name for s in BASE[:NCUR]] + ([f'{len(BASE) - NCUR} generated skeletons (2-4 states, 1-2 actions)'] if tier != 'quick' else []), labels=['int', 'str', 'tuple', 'frozendict', 'mixed(unsortable)'],
                symbolic_rows='<= 2 per case', max_states=[1, 2, 'inf'], explicit_or_inferred_lists=True)


def _closure(sh, P, absorbing_explicit, s0w, expand_initial_absorbing=False):
    """positive-probability closure from the initial support; absorbing states are not expanded.
    P[(s,a)] = {ns: prob (maybe symbolic)}; comparisons on symbolic numbers fork exactly like the code's."""
    start = [s for s in range(sh.S) if s in s0w and bool(s0w[s] > 0)]
    seen = set(start)
    frontier = list(start)
    while frontier:
        s = frontier.pop()
        if s in absorbing_explicit and not (expand_initial_absorbing and s in start):
            continue
        for a in sh.avail[s]:
            for ns, p in P[(s, a)].items():
                if bool(p == 0):
                    continue
                if ns not in seen:
                    seen.add(ns)
                    frontier.append(ns)
    return seen


def _outside_tag(sh, P, s0w, explicit):
    """'' unless a listed absorbing state has a successor that is not in the state list (its successors are not expanded by
    the reachability rule): the array builders of the repository raise KeyError there - recorded as a known finding"""
    if explicit:
        return ''
    closure = _closure(sh, P, sh.absorb, s0w, expand_initial_absorbing=True)
    for s in closure:
        if s in sh.absorb:
            for a in sh.avail[s]:
                for ns, p in P[(s, a)].items():
                    if ns not in closure and not bool(p == 0):
                        return '[absorbing-state-with-successors-outside-the-state-list]'
    return ''


def _setup(sx, shape, symrows, lab, alab, s0sym):
    sh0 = BASE[shape]
    sh = sh0.with_(slabels=label_menu(lab, sh0.S), alabels=alabel_menu(alab, sh0.A))
    P = {}
    for (s, a), row in sh.rows.items():
        if [s, a] in symrows or (s, a) in symrows:
            # two candidate successors: the skeleton's first successor and the next state index (maybe new)
            c1 = sorted(row)[0]
            c2 = (c1 + 1) % sh.S if len(row) == 1 else sorted(row)[1]
            p = sx.real(f"p_{s}_{a}", 0, 1)
            P[(s, a)] = {c1: p, c2: 1 - p} if c1 != c2 else {c1: 1}
        else:
            P[(s, a)] = {ns: sx.const(v) for ns, v in row.items()}
    rew = {}
    for (s, a), row in P.items():
        for ns in row:
            rew[(s, a, ns)] = sx.real(f"r_{s}_{a}_{ns}", -1, 1)
    if s0sym:
        ks = sorted(sh.s0) if len(sh.s0) > 1 else [0, sh.S - 1]
        ks = list(dict.fromkeys(ks))
        if len(ks) == 1:
            s0w = {ks[0]: 1}
        else:
            w = sx.real('w0', 0, 1)
            s0w = {ks[0]: w, ks[1]: 1 - w}
    else:
        s0w = {s: sx.const(p) for s, p in sh.s0.items()}
    return sh, P, rew, s0w


def _build(sx, sh, P, rew, s0w, explicit_lists=False, cls=None):
    from msdm.core.mdp import QuickTabularMDP
    from msdm.core.distributions import DictDistribution
    L, AL = sh.slabels, sh.alabels
    si = {l: i for i, l in enumerate(L)}
    ai = {l: i for i, l in enumerate(AL)}
    mdp = (cls or QuickTabularMDP)(
        next_state_dist=lambda s, a: DictDistribution({L[ns]: p for ns, p in P[(si[s], ai[a])].items()}),
        reward=lambda s, a, ns: rew[(si[s], ai[a], si[ns])],
        actions=lambda s: tuple(AL[a] for a in sh.avail[si[s]]),
        initial_state_dist=DictDistribution({L[s]: p for s, p in s0w.items()}),
        is_absorbing=lambda s: si[s] in sh.absorb,
        discount_rate=sx.const(sh.gamma) if sh.gamma != 1 else 1.0)
    if explicit_lists:
        mdp._state_list = tuple(L)
        mdp._action_list = tuple(AL)
    return mdp


def views(sx, shape, symrows, lab='int', alab='str', explicit=False, s0sym=True):
    sh, P, rew, s0w = _setup(sx, shape, symrows, lab, alab, s0sym)
    L, AL = sh.slabels, sh.alabels
    with facade(sx):
        mdp = _build(sx, sh, P, rew, s0w, explicit_lists=explicit)
        with sx.must_not_raise('views' + _outside_tag(sh, P, s0w, explicit)):
            sl = list(mdp.state_list)
            al = list(mdp.action_list)
            tm, rm, am = mdp.transition_matrix, mdp.reward_matrix, mdp.action_matrix
            sarm, s0v, absv = mdp.state_action_reward_matrix, mdp.initial_state_vec, mdp.absorbing_state_vec
            tt, rt, sart = mdp.transition_table, mdp.reward_table, mdp.state_action_reward_table
        sx.prove(len(sl) == len(set(sl)), 'state-list-no-duplicates')
        sx.prove(len(al) == len(set(al)), 'action-list-no-duplicates')
        if explicit:
            sx.prove(sl == L and al == AL, 'explicit-lists-kept')
        else:
            want = _closure(sh, P, sh.absorb, s0w)
            # the one place where the stated rule and a variant differ: an absorbing state in the initial support
            variant = _closure(sh, P, sh.absorb, s0w, expand_initial_absorbing=True)
            tag = '' if variant == want else '[absorbing-initial-state-with-new-successors]'
            sx.prove(set(sl) == {L[s] for s in want}, 'state-list-is-reachable-closure' + tag)
            if tag:
                want = {L.index(x) for x in sl}  # keep checking the arrays against the list actually produced
            wa = set()
            for s in want:
                wa |= {AL[a] for a in sh.avail[s]}
            sx.prove(set(al) == wa, 'action-list-is-union-of-available')
            if lab != 'mixed' and lab != 'frozendict':
                sx.prove(sl == sorted(sl), 'state-list-sorted-when-sortable')
        idx = {l: i for i, l in enumerate(L)}
        aidx = {l: i for i, l in enumerate(AL)}
        for i, sl_ in enumerate(sl):
            s = idx[sl_]
            sx.prove_eq(s0v[i], s0w.get(s, 0), f'initial-vec[{s}]')
            # absorbing: explicit, or every available action self-loops w.p. 1 with zero reward (and not a dead end)
            if s in sh.absorb:
                sx.prove(bool(absv[i]), f'absorbing-explicit[{s}]')
            else:
                loop = core.sall([core.sall([(P[(s, a)].get(s, 0) == 1)] + [(rew[(s, a, ns)] == 0) | (p == 0)
                                                                            for ns, p in P[(s, a)].items()])
                                  for a in sh.avail[s]]) if sh.avail[s] else False
                av = absv[i]
                sx.prove((av == loop) if (is_sym(av) or is_sym(loop)) else (bool(av) == bool(loop)), f'absorbing-implicit-rule[{s}]')
            for j, al_ in enumerate(al):
                a = aidx[al_]
                avail = a in sh.avail[s]
                sx.prove_eq(am[i, j], 1 if avail else 0, f'action-matrix[{s},{a}]')
                sar = 0
                for k, nl in enumerate(sl):
                    ns = idx[nl]
                    p = P[(s, a)].get(ns, 0) if avail else 0
                    sx.prove_eq(tm[i, j, k], p, f'transition[{s},{a},{ns}]')
                    sx.prove_eq(tt[sl_][al_][nl], p, f'transition-table[{s},{a},{ns}]')
                    if avail and ns in P[(s, a)]:
                        pz = (p == 0)
                        r = rew[(s, a, ns)]
                        want_r = core.zif(pz, 0, r) if is_sym(pz) else (0 if pz else r)
                        sar = sar + p * r
                    else:
                        want_r = 0
                    sx.prove_eq(rm[i, j, k], want_r, f'reward[{s},{a},{ns}]')
                    sx.prove_eq(rt[sl_, al_, nl], want_r, f'reward-table[{s},{a},{ns}]')
                sx.prove_eq(sarm[i, j], sar, f'sa-reward[{s},{a}]')
                sx.prove_eq(sart[sl_][al_], sar, f'sa-reward-table[{s},{a}]')
        sx.observe('tm', tm)
        sx.observe('rm', rm)


def reachability_cutoff(sx, shape, symrows, max_states, lab='int'):
    sh, P, rew, s0w = _setup(sx, shape, symrows, lab, 'str', True)
    L = sh.slabels
    with facade(sx):
        mdp = _build(sx, sh, P, rew, s0w)
        got = mdp.reachable_states(max_states=max_states)
        spec = _closure(sh, P, sh.absorb, s0w)
        variant = _closure(sh, P, sh.absorb, s0w, expand_initial_absorbing=True)
        if spec != variant:
            sx.prove(mdp.reachable_states() == {L[s] for s in spec}, 'reachable-states-is-closure[absorbing-initial-state-with-new-successors]')
            return
        full = {L[s] for s in spec}
        start = {L[s] for s in s0w if bool(s0w[s] > 0)}
        sx.prove(got <= full, 'cutoff-subset-of-closure')
        sx.prove(start <= got, 'cutoff-contains-initial-support')
        if len(full) <= max_states and len(start) < max_states:
            pass
        if len(start) >= max_states:
            sx.prove(got == start, 'cutoff-stops-at-once')
        sx.prove(len(got) >= min(len(full), max_states) or got == full, 'cutoff-not-earlier-than-documented')
        got_inf = mdp.reachable_states()
        sx.prove(got_inf == full, 'reachable-states-is-closure')
        # further queries on the SAME object with other cut-offs (keyword and positional): each answers for its own cut-off
        for k2 in (max_states + 1, 1, 100):
            for kw in (True, False):
                g2 = mdp.reachable_states(max_states=k2) if kw else mdp.reachable_states(k2)
                how = 'keyword' if kw else 'positional'
                sx.prove(g2 <= full and start <= g2, f'repeated-cutoff-query-subset-and-start[{k2},{how}]')
                sx.prove(len(g2) >= min(len(full), k2) or g2 == full, f'repeated-cutoff-query-not-earlier-than-documented[{k2},{how}]')
                if len(start) >= k2:
                    sx.prove(g2 == start, f'repeated-cutoff-query-stops-at-once[{k2},{how}]')
        sx.prove(mdp.reachable_states(max_states=max_states) == got, 'repeated-cutoff-query-same-answer')


def round_trip(sx, shape, symrows, lab='int', alab='str', explicit=False):
    """from_matrices(arrays of M) and QuickTabularMDP(callbacks of M) reproduce arrays, lists, discount and a planning run"""
    sh, P, rew, s0w = _setup(sx, shape, symrows, lab, alab, True)
    from msdm.core.mdp import TabularMarkovDecisionProcess, QuickTabularMDP
    from msdm.algorithms.valueiteration import ValueIteration
    if explicit:
        # explicit lists in a non-sorted order, with an action that is available nowhere and a state that is unreachable
        sh = sh.with_(alabels=['b', 'a', 'c'][:sh.A][::1] + ['unused'], A=sh.A + 1)
    with facade(sx):
        m = _build(sx, sh, P, rew, s0w, explicit_lists=explicit)
        with sx.must_not_raise('round-trip' + _outside_tag(sh, P, s0w, explicit)):
            m2 = TabularMarkovDecisionProcess.from_matrices(
                state_list=m.state_list, action_list=m.action_list, initial_state_vec=m.initial_state_vec,
                transition_matrix=m.transition_matrix, action_matrix=m.action_matrix, reward_matrix=m.reward_matrix,
                absorbing_state_vec=m.absorbing_state_vec, discount_rate=m.discount_rate)
            m3 = QuickTabularMDP(next_state_dist=m.next_state_dist, reward=m.reward, actions=m.actions,
                                 initial_state_dist=m.initial_state_dist, is_absorbing=m.is_absorbing,
                                 discount_rate=m.discount_rate)
            if explicit:
                m3._state_list, m3._action_list = m._state_list, m._action_list
            arrays = {}
            for tag, mm in (('orig', m), ('from_matrices', m2), ('quick', m3)):
                arrays[tag] = dict(sl=list(mm.state_list), al=list(mm.action_list), tm=mm.transition_matrix,
                                   rm=mm.reward_matrix, am=mm.action_matrix, s0=mm.initial_state_vec,
                                   ab=mm.absorbing_state_vec, g=mm.discount_rate)
        o = arrays['orig']
        import numpy as rnp
        for tag in ('from_matrices', 'quick'):
            x = arrays[tag]
            sx.prove(x['sl'] == o['sl'], f'{tag}:same-state-list')
            sx.prove(x['al'] == o['al'], f'{tag}:same-action-list')
            sx.prove_eq(x['g'], o['g'], f'{tag}:same-discount')
            for name in ('tm', 'rm', 'am', 's0'):
                A, B = rnp.asarray(x[name]), rnp.asarray(o[name])
                sx.prove(A.shape == B.shape, f'{tag}:{name}-shape')
                if A.shape == B.shape:
                    for ix in rnp.ndindex(A.shape):
                        sx.prove_eq(A[ix], B[ix], f'{tag}:{name}{list(ix)}')
            A, B = rnp.asarray(x['ab']), rnp.asarray(o['ab'])
            for ix in rnp.ndindex(B.shape):
                a_, b_ = A[ix], B[ix]
                sx.prove((a_ == b_) if (is_sym(a_) or is_sym(b_)) else (bool(a_) == bool(b_)), f'{tag}:absorbing{list(ix)}')
        if sh.gamma < 1:
            with sx.must_not_raise('plan-on-views'):
                res = [ValueIteration(max_iterations=3, max_residual=sx.const(F(1, 100))).plan_on(mm) for mm in (m, m2, m3)]
            for tag, r in (('from_matrices', res[1]), ('quick', res[2])):
                for s in o['sl']:
                    sx.prove_eq(r.state_value[s], res[0].state_value[s], f'{tag}:same-planning-result[{o["sl"].index(s)}]')
                sx.prove_eq(r.initial_value, res[0].initial_value, f'{tag}:same-initial-value')


def jobs(tier):
    quick = tier == 'quick'
    o = dict(timeout_ms=15000, budget_s=(120 if tier == 'quick' else 600), max_paths=4000)
    labs = ['int', 'str', 'tuple', 'frozendict', 'mixed']
    for i, sh in enumerate(BASE):
        if i >= NCUR and quick:
            break
        pairs = sorted(sh.rows)
        rowsets = [[], [list(pairs[0])], [list(pairs[-1])]]
        if len(pairs) >= 2:
            rowsets.append([list(pairs[0]), list(pairs[1])])
        if not quick and i < NCUR:
            rowsets += [[list(p)] for p in pairs[1:-1]] + [[list(a), list(b)] for a, b in itertools.combinations(pairs, 2)][:8]
        for k, rs in enumerate(rowsets):
            lab = labs[(i + k) % len(labs)] if sh.S <= 4 else 'int'
            alab = ['str', 'int', 'mixed', 'tuple'][(i + k) % 4]
            yield ('views', dict(shape=i, symrows=rs, lab=lab, alab=alab, explicit=False), o)
            if k < 2:
                yield ('views', dict(shape=i, symrows=rs, lab=lab, alab=alab, explicit=True), o)
                yield ('round_trip', dict(shape=i, symrows=rs, lab=lab, alab=alab), o)
                if k == 0:
                    yield ('round_trip', dict(shape=i, symrows=rs, lab=lab, alab='str', explicit=True), o)
            for ms in ([1, 2] if quick else [1, 2, 3]):
                if k < 2 or not quick:
                    yield ('reachability_cutoff', dict(shape=i, symrows=rs, max_states=ms, lab=lab), o)
