"""C19 — entropy-regularised policy iteration converges to the soft Bellman fixed point (partly applicable)."""
from fractions import Fraction as F

from symx import core, stubs
from symx.core import is_sym, ssum
from symx.stubs import facade

PROPERTY = 'C19'
FUNCTIONS = ['msdm.algorithms.entregpolicyiteration.{entropy_regularized_policy_iteration,clamp_zero}',
             'msdm.algorithms.entregpolicyiteration.EntropyRegularizedPolicyIteration.plan_on']
ASSUMPTIONS = [
    'torch facade (object tensors); exp is an uninterpreted positive strictly monotone function Exp with Exp(0)=1; log(p) of a probability is a log-domain '
    'value with exp(log p + t) = p*Exp(t); where a logarithm enters ordinary arithmetic (the KL term) it is an uninterpreted value LogU(p) with Exp(LogU(p)) = p',
    'one planning iteration is run from an ARBITRARY starting policy taken from a menu (the function accepts initial_policy): a converged run is exactly a '
    'policy that is a fixed point of one iteration, so the fixed-point clauses are decided for any number of iterations',
    'rewards symbolic; transition tensor, discount, prior, entropy weights from rational menus',
]
OUTSIDE = ['convergence of the action values to the hard optimum as the entropy weight tends to 0 (an asymptotic statement: not claimed)',
           'more than 2 states / 2 actions', 'rounding and the clamp at the smallest positive float']

H, Q1, Q3, T3 = F(1, 2), F(1, 4), F(3, 4), F(1, 3)

TENSORS = [
    ('two-state', [[[H, H], [0, 1]], [[1, 0], [Q1, Q3]]]),
    ('self-loops', [[[1, 0], [0, 1]], [[0, 1], [1, 0]]]),
    ('one-state', [[[1], [1]]]),
]
PRIORS = [[[H, H]], [[Q1, Q3]], [[Q1, Q3], [F(2, 3), T3]]]
WEIGHTS = [[F(1)], [F(1, 2)], [F(1, 5), F(2)], [F(10)]]
POLICIES = [[[H, H], [H, H]], [[Q1, Q3], [F(2, 3), T3]], [[F(9, 10), F(1, 10)], [F(1, 5), F(4, 5)]]]


def bounds(tier):
    return dict(transition_tensors=[t[0] for t in TENSORS], priors='uniform, 1/4-3/4, per-state', entropy_weights='1, 1/2, per-state (1/5, 2), 10',
                starting_policies='uniform, two skewed', discount=['1/2', '9/10'], iterations=1)


def _t(sx, x):
    import numpy as rnp
    if sx.sym:
        from symx.symtorch import TORCH
        return TORCH.tensor(rnp.array(x, dtype=object))
    import torch
    return torch.tensor(rnp.array(x, dtype=float), dtype=torch.float64)


def fixed_point(sx, tsel, psel, wsel, polsel, gamma, force):
    """one iteration from a given policy: whenever it reports convergence the returned triple satisfies the soft Bellman relations"""
    name, T = TENSORS[tsel]
    S, A = len(T), len(T[0])
    g = sx.const(F(gamma))
    c = sx.const
    r = [[sx.real(f"r_{s}_{a}", -2, 2) for a in range(A)] for s in range(S)]
    prior = [row[:A] for row in PRIORS[psel]][:S] if len(PRIORS[psel]) > 1 else [PRIORS[psel][0][:A]]
    if any(abs(sum(row) - 1) > 0 for row in prior):
        prior = [[x / sum(row) for x in row] for row in prior]
    w = WEIGHTS[wsel][:S] if len(WEIGHTS[wsel]) > 1 else WEIGHTS[wsel]
    pol = [[x for x in POLICIES[polsel][s % 2][:A]] for s in range(S)]
    pol = [[x / sum(row) for x in row] for row in pol]
    from msdm.algorithms.entregpolicyiteration import entropy_regularized_policy_iteration
    if sx.mode == 'real':
        # on the real code the uninterpreted Exp of the symbolic run means nothing: replay at a GENUINE fixed point of this case instead -
        # rewards constructed so that `pol` is the soft-optimal policy: q = w (log(pol/prior) + c_s), v = w c_s, r = q - g T v
        import math
        cs = [0.3 * (s + 1) for s in range(S)]
        wv = [float(w[s] if len(w) > 1 else w[0]) for s in range(S)]
        pr_ = [prior[s] if len(prior) > 1 else prior[0] for s in range(S)]
        vstar = [wv[s] * cs[s] for s in range(S)]
        r = [[wv[s] * (math.log(float(pol[s][a]) / float(pr_[s][a])) + cs[s]) - float(F(gamma)) * sum(float(T[s][a][n]) * vstar[n] for n in range(S))
              for a in range(A)] for s in range(S)]
    with facade(sx):
        tf = _t(sx, [[[c(T[s][a][n]) for n in range(S)] for a in range(A)] for s in range(S)])
        rf = _t(sx, [[[r[s][a]] for a in range(A)] for s in range(S)])       # S x A x 1 (broadcast over next states)
        with sx.must_not_raise('entreg'):
            res = entropy_regularized_policy_iteration(
                transition_matrix=tf, reward_matrix=rf, discount_rate=g, entropy_weight=_t(sx, [c(x) for x in w]),
                n_planning_iters=1 if sx.sym else 2000,     # on the real code: iterate to whatever fixed point the implementation has

                policy_prior=_t(sx, [[c(x) for x in row] for row in prior]), initial_policy=_t(sx, [[c(x) for x in row] for row in pol]),
                check_convergence=True, force_nonzero_probabilities=force)
        conv = res.converged
        if not bool(conv):
            sx.cut('not a fixed point')
        import numpy as rnp
        q = res.action_values.numpy() if not sx.sym else rnp.asarray(res.action_values)
        v = res.state_values.numpy() if not sx.sym else rnp.asarray(res.state_values)
        pi = res.policy.numpy() if not sx.sym else rnp.asarray(res.policy)
        for s in range(S):
            ws = c(w[s] if len(w) > 1 else w[0])
            pr = prior[s] if len(prior) > 1 else prior[0]
            # (1) action values are the one-step look-ahead of the state values
            for a in range(A):
                want = ssum(c(T[s][a][n]) * (r[s][a] + g * v[n]) for n in range(S) if T[s][a][n] != 0)
                sx.prove_eq(q[s, a], want, f'action-values-are-lookahead-of-state-values[{s},{a}]', tol=F(1, 10**7))
            # (2) the policy is the prior-weighted softmax of the action values at this temperature (within isclose)
            m = None
            for a in range(A):
                m = q[s, a] / ws if m is None else core.smax2(m, q[s, a] / ws)
            es = [c(pr[a]) * core.sym_exp(q[s, a] / ws - m) for a in range(A)]
            z = ssum(es)
            for a in range(A):
                want = es[a] / z
                tol = 1e-8 + 1e-5 * abs(want)
                sx.prove_eq(pi[s, a], want, f'policy-is-prior-weighted-softmax[{s},{a}]', tol=tol + F(1, 10**9))
            # (3) soft evaluation identity with the GIVEN prior: v = sum_a pi (q - w log(pi/prior))   (with (2) this is w*logsumexp)
            kl = 0
            for a in range(A):
                ratio = pi[s, a] / c(pr[a])
                lg = core.sym_log(ratio) if (is_sym(ratio) or sx.sym) else __import__('math').log(ratio)
                if isinstance(lg, core.LogVal):
                    lg = lg.to_real()
                kl = kl + pi[s, a] * lg
            sx.prove_eq(v[s], ssum(pi[s, a] * q[s, a] for a in range(A)) - ws * kl, f'state-value-satisfies-soft-evaluation-with-the-given-prior[{s}]', tol=F(1, 10**6))
        # (nothing is observed for twin comparison: the real-code replay deliberately uses its own, genuine fixed point)


def cap_hit(sx, tsel, psel, wsel, polsel, gamma, cap):
    """a run that exhausts its iteration budget must not report convergence: with a budget of `cap` improvement steps from a given
    starting policy, `converged` implies that the last improvement step left the policy unchanged (within isclose), i.e. the
    returned policy is the one the returned values were computed for.  Same budget on the symbolic and on the real run."""
    name, T = TENSORS[tsel]
    S, A = len(T), len(T[0])
    g = sx.const(F(gamma))
    c = sx.const
    r = [[sx.real(f"r_{s}_{a}", -2, 2) for a in range(A)] for s in range(S)]
    prior = [row[:A] for row in PRIORS[psel]][:S] if len(PRIORS[psel]) > 1 else [PRIORS[psel][0][:A]]
    prior = [[x / sum(row) for x in row] for row in prior]
    w = WEIGHTS[wsel][:S] if len(WEIGHTS[wsel]) > 1 else WEIGHTS[wsel]
    pol = [[x for x in POLICIES[polsel][s % 2][:A]] for s in range(S)]
    pol = [[x / sum(row) for x in row] for row in pol]
    from msdm.algorithms.entregpolicyiteration import entropy_regularized_policy_iteration
    import numpy as rnp
    with facade(sx):
        tf = _t(sx, [[[c(T[s][a][n]) for n in range(S)] for a in range(A)] for s in range(S)])
        rf = _t(sx, [[[r[s][a]] for a in range(A)] for s in range(S)])
        with sx.must_not_raise('entreg'):
            res = entropy_regularized_policy_iteration(
                transition_matrix=tf, reward_matrix=rf, discount_rate=g, entropy_weight=_t(sx, [c(x) for x in w]), n_planning_iters=cap,
                policy_prior=_t(sx, [[c(x) for x in row] for row in prior]), initial_policy=_t(sx, [[c(x) for x in row] for row in pol]),
                check_convergence=True, force_nonzero_probabilities=True)
        if cap == 1 and bool(res.converged):
            pi = res.policy.numpy() if not sx.sym else rnp.asarray(res.policy)
            for s in range(S):
                for a in range(A):
                    tol = 1e-8 + 1e-5 * abs(float(pol[s][a]))
                    sx.prove_eq(pi[s, a], c(pol[s][a]), f'converged-at-the-cap-only-if-the-policy-did-not-change[{s},{a}]', tol=F(tol) + F(1, 10**9))
        # (nothing observed for twin comparison: whether a step changes the policy depends on the real exponential)


def jobs(tier):
    o = dict(timeout_ms=15000, budget_s=(120 if tier == 'quick' else 600), max_paths=2000)      # (a case needs ~0.1 s of solver time on the unchanged tree)
    for tsel in range(len(TENSORS)):
        for wsel in (0, 2):
            yield ('cap_hit', dict(tsel=tsel, psel=1, wsel=wsel, polsel=1, gamma='1/2', cap=1), o)
    for tsel in range(len(TENSORS)):
        for psel in range(len(PRIORS)):
            for wsel in range(len(WEIGHTS)):
                for polsel in ([0, 1] if tier == 'quick' else [0, 1, 2]):
                    for gamma in (['1/2'] if tier == 'quick' else ['1/2', '9/10']):
                        for force in [True, False]:
                            if tier == 'quick' and force is False and (psel + wsel) % 2:
                                continue
                            yield ('fixed_point', dict(tsel=tsel, psel=psel, wsel=wsel, polsel=polsel, gamma=gamma, force=force), o)
