#!/bin/bash
# run every claimed check's quick tier sequentially; summary lines to stdout
cd /verif
for id in $(python3 -c "import json; print(' '.join(c['property_id'] for c in json.load(open('MANIFEST.json'))['checks']))"); do
  ./check $id --tier ${1:-quick} > /tmp/sweep_$id.log 2>&1; rc=$?
  echo "$id exit=$rc $(tail -1 /tmp/sweep_$id.log | cut -c1-220)"
done
