#!/bin/bash
# run every claimed check sequentially; summary lines to stdout.  usage: sweep.sh [quick|thorough] [per-check timeout s] [ids...]
cd "$(dirname "$0")/.."
TIER=${1:-quick}; TO=${2:-3600}; shift; shift
IDS="$@"
[ -z "$IDS" ] && IDS=$(python3 -c "import json; print(' '.join(c['property_id'] for c in json.load(open('MANIFEST.json'))['checks']))")
for id in $IDS; do
  t0=$(date +%s)
  timeout $TO ./check $id --tier $TIER > ${SWEEP_LOGDIR:-/tmp}/sweep_${TIER}_$id.log 2>&1; rc=$?
  echo "$id exit=$rc wall=$(( $(date +%s) - t0 ))s $(grep '^\[' ${SWEEP_LOGDIR:-/tmp}/sweep_${TIER}_$id.log | tail -1 | cut -c1-200)"
done
