#!/bin/bash
# run the repository's baseline suite on a tree (default /repo) and compare with BASELINE.json's stable_pass list
T=${1:-/repo}
OUT=$(mktemp -d /var/tmp/bl.XXXX)
cd "$T" && /venv/bin/python -m pytest -ra -q -p no:cacheprovider --timeout=900 --continue-on-collection-errors --junitxml=$OUT/j.xml >$OUT/log 2>&1
/venv/bin/python - "$OUT/j.xml" <<'PY'
import sys, json, xml.etree.ElementTree as ET
base = set(json.load(open('/root/.vp/BASELINE.json'))['stable_pass'])
ok = set()
for tc in ET.parse(sys.argv[1]).getroot().iter('testcase'):
    if not any(c.tag in ('failure', 'error', 'skipped') for c in tc):
        ok.add(f"{tc.get('classname')}::{tc.get('name')}")
miss = sorted(base - ok)
print(f"baseline stable_pass={len(base)} passing_now={len(base & ok)} missing={miss} extra_passing={len(ok - base)}")
sys.exit(1 if miss else 0)
PY
rc=$?
rm -rf "$OUT"
exit $rc
