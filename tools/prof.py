"""dev helper: explore one harness case in-process and print stats.
usage: prof.py <module> <harness> '<json case>' [budget_s]"""
import sys, time, json; sys.path.insert(0,'/verif')
from symx import engine, stubs
stubs.preload()
import importlib
h = importlib.import_module('harness.' + sys.argv[1])
case = json.loads(sys.argv[3])
t=time.time()
st = engine.explore(lambda sx: getattr(h, sys.argv[2])(sx, **case), timeout_ms=60000, budget_s=float(sys.argv[4]) if len(sys.argv) > 4 else 300, twin=1)
for k in ['paths','cut','infeasible','queries','solver_s','obligations','discharged','cached','slowest','inconclusive','errors','unmodelled','unconfirmed','violations','twin_ok','twin_mismatch','exhausted','notes']:
    print(k, st.get(k))
print('wall', time.time()-t)
