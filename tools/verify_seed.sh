#!/bin/bash
# usage: verify_seed.sh <PROP> <worktree> <mN>   -- confirm a seeded change in its scratch worktree, store it, run the check against it
P=$1; WT=$2; M=$3; SD=$WT/_seeded/$M
set -u
cd $WT || exit 9
git checkout -q -- . 
echo "== demo on clean tree"; PYTHONPATH=$WT timeout 600 /venv/bin/python $SD/demo.py >/tmp/vs_clean.log 2>&1; RC0=$?; tail -2 /tmp/vs_clean.log
git apply $SD/patch.diff || { echo "PATCH DOES NOT APPLY"; exit 9; }
echo "== demo on changed tree"; PYTHONPATH=$WT timeout 600 /venv/bin/python $SD/demo.py >/tmp/vs_mut.log 2>&1; RC1=$?; tail -2 /tmp/vs_mut.log
echo "== baseline tests on changed tree"; /verif/tools/baseline.sh $WT; RCB=$?
git checkout -q -- .
echo "demo clean rc=$RC0 mutated rc=$RC1 baseline rc=$RCB"
if [ $RC0 -ne 0 ] || [ $RC1 -eq 0 ] || [ $RCB -ne 0 ]; then echo "SEED REJECTED"; exit 1; fi
D=/verif/seeded/$P-${TAG:-}$M; mkdir -p $D; cp $SD/patch.diff $SD/demo.py $D/; cp $SD/meta.json $D/meta.agent.json
echo "== check against the change (applied to /repo, reverted afterwards)"
if [ -n "${DEV:-}" ]; then
  # while a sweep is using /repo: run the check against the scratch worktree instead (evidence/replays go to /tmp/symx_dev_out)
  cd $WT && git apply $D/patch.diff || { echo "PATCH DOES NOT APPLY"; exit 9; }
  cd /verif && SYMX_DEV_TREE=$WT timeout 3000 ./check $P --tier quick > $D/check_quick.log 2>&1; RCC=$?
  cd $WT && git checkout -q -- .
else
cd /repo && git apply $D/patch.diff || { echo "PATCH DOES NOT APPLY TO /repo"; exit 9; }
cd /verif && timeout 3000 ./check $P --tier quick > $D/check_quick.log 2>&1; RCC=$?
cd /repo && git checkout -q -- . && git status --short
fi
grep -E "^VIOLATION|^\[$P" $D/check_quick.log | head -5
echo "check exit=$RCC"
python3 - "$D" "$P" "$M" "$RCC" <<'PY'
import json,sys
d,p,m,rc=sys.argv[1:5]
a=json.load(open(d+'/meta.agent.json'))
v=[l.strip() for l in open(d+'/check_quick.log') if l.startswith('VIOLATION') or l.startswith('  harness')][:6]
json.dump(dict(property=p, breaks=a.get('summary'), needs=a.get('needs'),
  confirmed=dict(demo_on_clean_tree='PASS (exit 0)', demo_on_changed_tree='FAIL (exit 1)', baseline_tests_with_change='same 88 stable tests pass', where='scratch worktree of /repo outside /repo and /verif, removed afterwards'),
  check_quick=dict(exit=int(rc), detected=(int(rc)==1), lines=v)), open(d+'/meta.json','w'), indent=1)
PY
rm -f $D/meta.agent.json
