#!/usr/bin/env python3
"""Regenerate MANIFEST.json from the per-property claim table below."""
import json
import os

ROOT = os.path.dirname(os.path.dirname(os.path.abspath(__file__)))
TECH = ("bounded symbolic execution of the real Python functions on z3-backed values (all feasible paths; "
        "numpy/random/math replaced by symbolic facades), obligations discharged by z3 (unsat of path AND NOT phi); "
        "counterexamples replayed on the unmodified code")

CLAIMS = {
    'C01': dict(
        text=("The real ValueIteration.plan_on (vectorised and dict versions) and PolicyIteration.plan_on are executed on "
              "symbolic rewards / residual threshold / placeholder over a menu of MDP skeletons (stochastic branching, cycles, "
              "state-dependent action sets, explicit and implicit absorbing states, multi-state starts, int/str/tuple labels), "
              "K sweeps unrolled. On every converged path z3 proves: reported action values are the one-step look-ahead "
              "(independently written masked model) of the reported state values, the Bellman residual is within the "
              "configured threshold (=> |V-V*| <= eps/(1-g) resp. g*eps/(1-g) by the contraction lemma), absorbing states 0, "
              "placeholder at states that cannot reach a goal (g=1), unavailable actions -inf / probability 0, initial value = "
              "expectation, policy rows uniform over exactly the isclose-maximisers of the planner's action values; on the "
              "smaller skeletons the bound and the optimality of the policy's exactly evaluated return are also proved "
              "directly against a fresh V*/Q* fixed point. One-sweep inductive step from an arbitrary value vector covers any "
              "number of sweeps of the vectorised kernel. Holds for all rewards/thresholds inside the bound."),
        note=("bounds: skeleton menu (1-3 states, 4 for one goal-reaching skeleton in thorough; 1-2 actions), discount in "
              "{1/2, 9/10, 1}, unrolled sweeps K (3-5 quick, up to 8 thorough), PI rounds |A|^S+2; paths that hit the cap "
              "are counted as cut. Transition probabilities are concrete menu rationals. For the dense 3-state skeletons the "
              "distance to V* is obtained from the solver-proved residual via the contraction lemma (a textbook fact, not "
              "re-proved by the solver). Floats as reals (a float within 1e-13 of a small rational stands for it)."),
        ref='DESIGN.md section 4 C01'),
    'C02': dict(
        text=("TabularPolicy.evaluate_on (discounted and undiscounted branches, incl. Policy.to_tabular) is executed on symbolic "
              "rewards for every skeleton x policy-row combination of the menu; z3 proves that state values, action values "
              "(-inf exactly at unavailable actions), discounted occupancies and the initial value equal fresh unknowns pinned "
              "by independently written Bellman expectation / occupancy equations (absorbing states worth 0). Undiscounted: "
              "value is -inf exactly when a closed non-absorbing class with negative expected reward (sign decided symbolically, "
              "forking) is reachable under the policy, and the finite expected total reward otherwise. One NRA variant leaves a "
              "policy probability symbolic."),
        note=("1-4 states, 1-2 actions, policy rows from {point masses, 1/2-1/2, 1/4-3/4}, discount in {1/2, 9/10, 1}; transition "
              "probabilities concrete; matrix inverse of a concrete matrix is exact rational Gauss-Jordan in the facade, of a "
              "symbolic matrix fresh unknowns with A X = I; action values at absorbing states are not constrained (the statement "
              "fixes only their state value); floats as reals"),
        ref='DESIGN.md section 4 C02'),
    'C03': dict(
        text=("LAOStar.plan_on (explicit graph expansion, ancestor revision, inner policy iteration, solution graph, policy "
              "construction) is executed end to end with a SYMBOLIC heuristic constrained only by admissibility (h >= V*, V* fresh "
              "unknowns pinned by the Bellman optimality equations, h <= V*+3) and symbolic ordering keys for every rng.random() "
              "draw, i.e. every admissible heuristic and every ordering any seed can produce. On every path z3 proves: convergence "
              "is reported within S+3 expansions, initial value = optimal value of the initial distribution, every explored value "
              ">= V*, the returned policy is defined on every state it reaches from the initial support with available actions "
              "only, and its exactly evaluated return (fresh linear system) is optimal."),
        note=("5 skeletons (2-5 states; absorbing initial mass, two start states, discounted, stochastic branching, a costly chain "
              "with values below -23) x 2 reward menus (rewards concrete: with symbolic rewards AND heuristic every comparison "
              "forks) x randomize_action_order/randomize_nextstate_order in {on,off}; np.around(.,10) is the identity in the "
              "facade"),
        ref='DESIGN.md section 4 C03'),
    'C04': dict(
        text=("LRTDP.plan_on is executed with symbolic rewards, a symbolic ADMISSIBLE heuristic (constrained only by h >= V*, V* being "
              "fresh unknowns pinned by the Bellman optimality equations), a symbolic error margin and a nondeterministic trial "
              "sampler, so every trial history within the bound is explored. On every returning path z3 proves: all initial states "
              "labelled solved (or the trial budget was used up), touched values >= V*, absorbing states worth 0 in values and "
              "initial value, policy on available actions, V(s0)-V*(s0) <= margin x expected steps of the returned greedy policy "
              "(fresh linear system) and the policy's exactly evaluated return within that margin of optimal. A second harness "
              "proves the inductive step from an ARBITRARY Bellman-monotone upper-bound value table and label set satisfying the "
              "labelling invariant: one _bellman_update / _check_solved keeps values >= V*, keeps monotonicity, never removes a "
              "label and re-establishes the invariant (covers histories of any length for monotone heuristics)."),
        note=("4 goal-reaching skeletons (2-4 states, absorbing initial mass, two start states, discounted), <= 3 trials x 3 steps "
              "(quick; 2 trials for the larger ones), randomize_action_order on/off; termination for every history is not claimed "
              "(cut paths counted). The step invariant is inductive only under Bellman-monotone values (Bonet & Geffner's standing "
              "assumption): for merely admissible heuristics the claim rests on the bounded full runs. Two defects found by this "
              "check were repaired in /repo (absorbing initial state keeps heuristic value; returned policy at labelled-but-unstored "
              "states)."),
        ref='DESIGN.md section 4 C04'),
    'C05': dict(
        text=("AStarSearch.plan_on and BreadthFirstSearch.plan_on (incl. from_mdp, path reconstruction, policy construction) are "
              "executed on digraphs whose every edge cost is a symbolic real >= 0 and whose heuristic values are symbolic and "
              "constrained only by consistency; heapq runs natively on symbolic keys (each comparison forks), the random stream "
              "is nondeterministic (all tie-break keys / shuffles). On every path z3 proves: path starts at the initial state, "
              "follows real transitions under the returned policy, ends at a goal, path_value equals the path's cost and is <= the "
              "cost of EVERY simple start-goal path of the digraph (finite conjunction, so zero-cost cycles are harmless); BFS: "
              "minimum number of steps; None exactly when no goal is reachable; all four single-outcome representations."),
        note=("digraphs from a menu of 11 (quick) / 14 (thorough) skeletons with 2-5 nodes (self-loops, two goals, unreachable "
              "goal, start=goal, odd cycle, dense); tie_breaking in {lifo,fifo,random} x randomize_action_order (dense4 with "
              "shuffling only in thorough); successive uniform draws of one generator are assumed pairwise distinct; heuristics: zero "
              "and arbitrary consistent (symbolic). A defect found by this check (single-entry DictDistribution -> TypeError) "
              "was repaired in /repo."),
        ref='DESIGN.md section 4 C05'),
    'C06': dict(
        text=("The real reachable_states / state_list / action_list / transition, reward, action, initial, absorbing arrays and "
              "tables / from_matrices / QuickTabularMDP are executed on MDP definitions whose rewards and initial weights are "
              "symbolic and whose transition rows (up to two per case) carry symbolic probabilities p, 1-p with the endpoints "
              "included, so the solver chooses which entries are exactly zero. z3 proves cell-by-cell that every array and table "
              "entry IS the term the functional definition returns (any transposition or off-by-one changes a term), that the "
              "state list is the duplicate-free positive-probability closure (absorbing states not expanded), the documented "
              "max_states cut-off, the implicit-absorbing rule, and that from_matrices / the quick wrappers reproduce arrays, "
              "lists, discount and a 3-sweep planning run, for int/str/tuple/frozendict/unsortable-mixed labels and explicit or "
              "inferred lists."),
        note=("skeletons of 1-4 states / 1-2 actions; at most two symbolic rows at once; labels from menus; one known finding "
              "(absorbing state in the initial support is expanded) is reported as KNOWN-FINDING; two defects found by this check "
              "were repaired in /repo (zero-probability successors / initial states raising KeyError)"),
        ref='DESIGN.md section 4 C06'),
    'C07': dict(
        text=("state_estimator, predictive_observation_dist, their vectorised versions, BeliefMDP and the value-based policy's "
              "agent-state update are executed with the belief a SYMBOLIC point of the simplex (zero components allowed, so "
              "`prob == 0` branches fork) on POMDPs with action- and state-dependent observation kernels containing zeros. z3 "
              "proves for every action/observation: posterior * P(o) = unnormalised Bayes numerator (cross-multiplied), posterior "
              "normalised or empty exactly for impossible observations, zero-mass states absent, predictive distribution = exact "
              "marginal summing to 1, dict and vectorised versions equal, belief-MDP branches normalised with normalised beliefs "
              "whose weighted mean is the one-step state prediction, reward = belief expectation, absorbing iff all mass on "
              "absorbing states. A second harness takes beliefs from a menu and makes one observation row symbolic."),
        note=("3 POMDP skeletons (2-3 states, 2 actions, 2-3 observations, absorbing state, revealing kernel); transition kernels "
              "concrete; beliefs with symbolic entries are not merged when equal (asserted quantities are invariant under merging)"),
        ref='DESIGN.md section 4 C07'),
    'C12': dict(
        text=("Table / ProbabilityTable / StateTable / StateActionTable / StateActionNextStateTable / TabularPolicy indexing is "
              "executed on tables whose every cell is a distinct free symbolic real, so 'returns exactly that cell' is decided for "
              "all data at once as a term identity. For every combination of field domains from a menu of colliding hashables "
              "(tuples that are both keys and key-tuples, None, floats, frozensets, singletons) the harness checks, against "
              "nested-dictionary semantics written independently: every full key, nested keys, partial tuples, every ordered "
              "outer-key list of 1-3 keys, full slices, ellipses in every position, the outer-element precedence rule, "
              "keys/items/len order, probability-table rows as distributions, and that every foreign key raises (the "
              "state/action index error for MDP tables)."),
        note=("1-3 fields, domain sizes 1-4, 9 domain menus; the discrete part is exhaustive enumeration inside the bound (declared "
              "as such), the solver's share is the quantification over the table data; subset selectors inside multi-field keys "
              "and partial slices are outside the statement"),
        ref='DESIGN.md section 4 C12'),
    'C13': dict(
        text=("2-safety by self-composition over the real code: each of 16 randomised components (LAO*, LRTDP, A*, BFS, the four TD "
              "learners, R-MAX, the two controller learners' seed plumbing, semi-MDP option simulation, implicit distributions, "
              "MDP roll-out / Monte-Carlo evaluation, POMDP roll-out) is executed TWICE in one symbolic path with the same SYMBOLIC "
              "integer seed, different prior states of the process-global generators and different interpreter hash salts. "
              "Private generators are deterministic-uninterpreted (k-th draw = U(seed,k)), global generators return fresh values "
              "and taint, hash() of anything containing a str is H(salt, x), sets of hash-randomised elements iterate in a "
              "salt-dependent solver-chosen order. z3 proves: no global generator is read or written, every private generator "
              "receives a seed that is the same term in both runs, and the two results are equal. Witnesses and counterexamples "
              "are replayed in real interpreter processes (8 PYTHONHASHSEED values, differently seeded global generators, global "
              "state compared before/after)."),
        note=("examples: 3 string-named states / 2 actions (acyclic), a cyclic 2x3 string-named 'river' MDP for LRTDP (2 trials x 2 "
              "steps), a 4-node string graph, a 2-state POMDP; the controller learners are checked through their constructors only "
              "(their optimisation loops are compiled LP / autograd code); determinism of the PRNG bit streams is assumed. Four "
              "defects found by this check were repaired in /repo (seed=0 in both controller learners; POMDP roll-out global "
              "generator; salted hash in semi-MDP seeds)."),
        ref='DESIGN.md section 4 C13'),
    'C14': dict(
        text=("Policy.run_on / evaluate_on / calc_returns and POMDPPolicy.run_on are executed with a nondeterministic generator "
              "(every draw a solver-chosen index among positive-weight items), a SYMBOLIC step cap and symbolic rewards, so all "
              "roll-outs any seed can produce within the bound are explored. On every path z3 / the harness proves the "
              "trajectory-validity clauses verbatim (start state, positive-probability action / successor / observation, model "
              "reward as a term, chaining, agent state = the policy's own update, stop exactly at the first absorbing state or at "
              "the cap, bare final step); calc_returns equals the backward recursion for symbolic rewards AND symbolic discount "
              "(incl. 0 and 1); evaluate_on's outputs equal the averages recomputed from its own roll-outs (spied), and the "
              "truncated exact evaluation for a deterministic policy on a deterministic chain."),
        note=("MDP skeletons of 1-4 states, policies {uniform, first action, explicit zero mass on an available action, tabular}, "
              "given / sampled / absorbing start states, caps 0..3 (quick) 0..4 (thorough), 1-2 simulations, reward sequences of "
              "length 0-4; POMDP roll-outs with a value-based policy and a 2-node stochastic controller, caps 0..2/3. The "
              "deterministic FiniteStateController class cannot be constructed at all (its two shape assertions are swapped) and is "
              "therefore not a roll-out driver here."),
        ref='DESIGN.md section 4 C14'),
    'C08': dict(
        text=("point_based_value_iteration, PointBasedValueIteration.plan_on (belief expansion included), AlphaVectorPolicy and "
              "QMDP (through the real policy iteration) are executed on symbolic rewards. The optimal k-horizon POMDP value "
              "V_k*(b) is written independently as an expectimax z3 term over the concrete successor beliefs (episode ends at "
              "absorbing states). z3 proves on every path: the PBVI value at every tested belief never exceeds V_k* for the "
              "number of backups performed (hence V* + g^k Rmax/(1-g)), equals it where the belief set is closed under "
              "successors (revealing kernel), alpha vectors are 0 on absorbing states, on an early exit the reported per-action "
              "backup is the independently written point-based backup of the reported vectors; QMDP action values are the "
              "belief-weighted optimal MDP action values (fresh Bellman fixed point) and its value is >= V_h* - g^h/(1-g) <= V*; "
              "each policy's action distribution is uniform over exactly the maximisers of its own action values."),
        note=("4 POMDP skeletons (2-3 states, 2 actions, 2-3 observations; absorbing state whose declared transitions leave it; "
              "revealing kernel), belief sets {b0}, {b0+vertices}, {b0, centre, two vertices}, {vertices}; horizons 1-2 (3 for the "
              "2-state early-exit runs; 1-3 thorough), 0-1 belief expansions; kernels / beliefs / discount concrete; the automatic "
              "horizon (log of symbolic quantities) is exercised only in real-mode witness runs"),
        ref='DESIGN.md section 4 C08'),
    'C09': dict(
        text=("Partly applicable. Decided by symbolic execution: (1) stochastic_fsc_policy_evaluation_exact (through a torch facade) "
              "on symbolic rewards and a symbolic initial node distribution: the (node,state) value table equals fresh unknowns "
              "pinned by the Bellman expectation equations of the controller x POMDP cross product, state_value and "
              "expected_value mix it correctly; (2) StochasticFiniteStateController executed step by step from "
              "initial_agentstate for EVERY action/observation history of length <= 2 with a symbolic initial node "
              "distribution: action probabilities and node beliefs are the ones the controller defines (conditioned on the "
              "action taken); run_on stops at absorbing states (incl. an absorbing start); (3) improve_node_matrix_constraint: "
              "the LP handed to the solver is Poupart & Boutilier's table-4 program entry by entry (symbolic rewards and value "
              "table), and for EVERY feasible LP point (nondeterministic solver oracle) the extracted action and node-transition "
              "strategies and the updated controller are probability distributions; with_new_node / propose_escape_node keep the "
              "controller row-stochastic."),
        note=("NOT covered (not decidable by this technique here): that bounded policy iteration never lowers a node value between "
              "iterations and reports the exact value of the returned controller, and gradient ascent's Adam/autograd loop - "
              "both depend on the optimal solution returned by compiled HiGHS / torch autograd. 4 POMDP skeletons (2-3 states), "
              "controllers with 1-2 nodes from strategy menus, histories <= 2 (3 in thorough). One known finding is reported "
              "(the evaluator does not end episodes at absorbing states; repairing it breaks a repository test that hard-codes "
              "the current numbers); one defect was repaired in /repo (node belief not conditioned on the action)."),
        ref='DESIGN.md section 4 C09'),
    'C10': dict(
        text=("Q-learning, SARSA, expected SARSA and double Q-learning are run through train_on with symbolic rewards, symbolic "
              "initial Q-values (constant or per state-action), symbolic exploration rate and a nondeterministic generator, so "
              "every experienced history within the bound is explored. An event listener passed through the public hook records "
              "the experience; on every path z3 proves: each step is a real positive-probability transition from a non-absorbing "
              "state with an available action and the model's reward (as a term), steps chain, and the returned Q-table equals "
              "the published update rule folded by the harness over that experience from the configured initial values with "
              "absorbing states at 0 (entry by entry, as terms; double Q: the TD error must use a greedy action of the updated "
              "table evaluated under the other one); the returned policy is uniform over exactly the max-Q actions of visited "
              "states and over all available actions elsewhere; Q-values stay in the interval spanned by the initial value and "
              "the discounted reward bounds for every step size in [0,1] (symbolic); a learner trained twice keeps each result's "
              "policy greedy for its own table."),
        note=("3 skeletons (state-dependent action sets, absorbing initial state), 1-2 episodes, <= 2 steps per episode in quick "
              "(3 in thorough; longer histories are cut and counted), step size from {0,1/10,1/2,1} in the fold harness, softmax "
              "temperature 0 and 1 (exp uninterpreted-positive-monotone; at temperature 1 the learner is stopped after its first "
              "update). Two defects found by this check were repaired in /repo (SARSA absorbing initial state; policy at "
              "unvisited states)."),
        ref='DESIGN.md section 4 C10'),
    'C16': dict(
        text=("MultichainPolicyIteration.plan_on is executed on symbolic rewards over unichain, multichain, transient+absorbing and "
              "stay-or-quit skeletons (undiscounted) and the curated skeletons (discounted), with the default and with very small "
              "iteration caps. On every path that reports convergence z3 proves: discounted - state values equal a fresh Bellman "
              "optimality fixed point; undiscounted - the per-state gain equals fresh unknowns (g,h) satisfying the nested "
              "multichain optimality equations (whose g is the optimal long-run average reward); the returned policy's rows are "
              "distributions over available actions and its exactly evaluated value / gain (fresh evaluation equations of the "
              "concrete policy) is optimal."),
        note=("1-3 states, 1-2 actions; transition probabilities concrete, so chain classification / rank decisions run on concrete "
              "data; tolerances follow the planner's own tie band (np.isclose rtol 1e-5 on bias / value magnitudes): gain 1e-4, "
              "discounted values 2*iso/(1-g); paths where the cap is hit before the first bias step (UnboundLocalError in the "
              "repository) are counted as cut. One defect found by this check was repaired in /repo (NaN policy row)."),
        ref='DESIGN.md section 4 C16'),
    'C17': dict(
        text=("RMAX.train_on is executed with symbolic rewards (one transition pinned to rmax), a symbolic convergence tolerance and "
              "a nondeterministic generator (all experienced histories within the bound); an event listener passed through the "
              "public hook records the experience. On every path z3 proves: each step is a real transition with the model's reward, "
              "every returned Q-value <= rmax/(1-gamma), exactly that optimistic value for every pair tried fewer than m times, for "
              "pairs tried >= m times the Bellman residual w.r.t. the empirical model rebuilt by the harness from the first m "
              "logged samples (unknown pairs optimistic) is below the configured tolerance, and the returned policy is uniform over "
              "exactly the greedy actions of the returned Q-values. A learner trained on a second MDP with a different number of "
              "states must satisfy the same clauses."),
        note=("3 skeletons (2-3 states, 2 actions everywhere, discount 1/2 and 9/10), thresholds m in {1,2}, 1-2 episodes, <= 2 "
              "steps per episode (quick) / 3 (thorough); the inner sweep loop is bounded by a cap of 400 decisions per path (cut "
              "paths counted). One defect found by this check was repaired in /repo (cached self-transition matrix)."),
        ref='DESIGN.md section 4 C17'),
    'C18': dict(
        text=("TabularGridGame.next_state_dist (with the factor-table algebra underneath) is executed with both agents' coordinates and "
              "both action indices as symbolic integers (every in-grid placement outside obstacles, all 25 joint actions) and a "
              "symbolic fence success probability; for every positive-probability successor the harness proves: distribution sums "
              "to 1, no two agents on one non-goal cell, no swap, no agent in an obstacle / off the grid / through a wall in its "
              "blocked direction / moved more than one cell, own-goal states lead to the terminal state, which is absorbing and "
              "pays nothing. DiscreteFactorTable: with symbolic row weights (zero allowed) p & q equals the normalised natural "
              "join with multiplied weights (independent join written in the harness), leaves its operands untouched, and "
              "a*p | b*q adds the weights row by row."),
        note=("6 layouts up to 3x3 (private goals adjacent, shared goal, obstacle + wall, fences, stacked goals); placements are a "
              "superset of the reachable states (reachability itself uses JSON-encoded sets and is not executed symbolically); 5 "
              "table pairs over nested-dict events (independent, shared variable, partially overlapping nested keys, same header, "
              "single rows); log / exp / softmax in the log domain with uninterpreted Exp"),
        ref='DESIGN.md section 4 C18'),
    'C19': dict(
        text=("Partly applicable. entropy_regularized_policy_iteration is executed (torch facade) for ONE iteration from a starting "
              "policy of a menu with symbolic rewards: a run that reports convergence is exactly a fixed point of one iteration, so "
              "the fixed-point clauses are decided for any number of iterations. On every converged path z3 proves: action values "
              "are the one-step look-ahead of the state values; the policy is within np.isclose of prior(a)*Exp(q(s,a)/w_s) / "
              "sum_b prior(b)*Exp(q(s,b)/w_s) (Exp uninterpreted, so any change of temperature, prior or axis yields a different "
              "term and a counterexample); the state values satisfy the soft evaluation identity v = sum_a pi (q - w log(pi/prior)) "
              "with the GIVEN prior (together with the softmax clause this is the prior-weighted log-sum-exp). Every case is "
              "also replayed on the real torch code at a genuine fixed point constructed for it."),
        note=("NOT claimed: convergence of the action values to the hard optimum as the entropy weight tends to 0 (an asymptotic "
              "statement; no decision procedure for it here). 3 transition tensors (1-2 states, 2 actions), priors uniform / skewed "
              "/ per-state, entropy weights 1, 1/2, per-state (1/5, 2), 10, discount 1/2 (9/10 in thorough), with and without forced "
              "non-zero probabilities; exp / log modelled by uninterpreted Exp (positive, strictly monotone, Exp(0)=1) and LogU with "
              "Exp(LogU(p)) = p"),
        ref='DESIGN.md section 4 C19'),
    'C20': dict(
        text=("For EVERY layout over the plain grid world's alphabet with a start cell up to 4 cells (quick; 6 in thorough, plus a "
              "menu of larger layouts: goal column cutting the grid, walled-in start, one-row/one-column grids) the real parser "
              "and GridWorld methods are executed with the agent position and action as symbolic integers and success "
              "probability, step cost and feature rewards as symbolic reals; z3 proves the statement's clauses verbatim "
              "(normalised, successors in the state list, at most one cell and only as commanded, never into a wall or off the "
              "grid, success with exactly the configured probability incl. 0 and 1, reward = step cost + entered feature as a "
              "term, absorbing feature -> zero-reward terminal state). Windy grid world: every layout up to 3 cells (4 in "
              "thorough) + menu, symbolic wind probability / costs / rewards; cliff walking, tiger (symbolic coherence), "
              "load-unload (2..5 states), heaven-or-hell (symbolic coherence and rewards, 5 grids): every transition, initial and "
              "observation distribution normalised, successors in the state list, finite rewards, >= 1 action, arrays build with "
              "normalised rows and 3 sweeps of value iteration run."),
        note=("layouts are enumerated exhaustively inside the bound (one case per layout) - that part is enumeration driven "
              "through the harness, the solver's share is position/action/parameters; layouts without a start cell are excluded; "
              "planning on the arrays uses probabilities from {0,1/2,1}. Two defects found by this check were repaired in /repo "
              "(WindyGridWorld default feature_rewards=None; goal that cuts the grid)."),
        ref='DESIGN.md section 4 C20'),
    'C15': dict(
        text=("augment() is executed for ALL 2^7 subsets of overridden components (2^5 for a non-tabular base) on a base MDP whose "
              "discount rate and rewards are symbolic: z3 proves that every non-overridden component of the derived MDP returns "
              "the same terms as the base (discount rate, lists, and the five functions on all arguments) and every overridden one "
              "the override. PlanToSubgoalOption.sub_task: base discount and transitions, rewards clipped by the symbolic cap "
              "exactly on transitions into non-terminal states, absorbing set per the include flag. Option.run_on under a "
              "nondeterministic generator: ends exactly at the first terminal state with real transitions and base rewards, or "
              "raises AlgorithmException. SemiMDP: option outcome distribution normalised and equal (frequency and reward mass per "
              "(end state, steps)) to the empirical distribution recomputed from its own (spied) simulations with the symbolic "
              "discount; primitive actions give one-step outcomes with duration 1."),
        note=("skeletons of 1-4 states; option policies {first, last, uniform}; step limits 2,4 (quick) 1..5 (thorough); 1-2 "
              "simulations; roll-outs that hit the limit are cut. Two defects found by this check were repaired in /repo "
              "(augment lost the discount rate; SemiMDP.actions tuple+list)."),
        ref='DESIGN.md section 4 C15'),
    'C11': dict(
        text=("For every support size within the bound and every distribution kind, the probability-calculus laws are "
              "proved for ALL probability/weight/score values at once (symbolic reals, zero entries included), by running "
              "the real methods on symbolic numbers and discharging each law as a z3 obligation; sampling is checked "
              "against a nondeterministic generator (all draws). Bounded proof, not sampling: holds for every value inside "
              "the bound, says nothing outside it."),
        note=("supports of size <= 3 (quick) / 4 (thorough); kernels/likelihood weights from rational menus when the base "
              "probabilities are symbolic (plus one fully symbolic 2x2 NRA case); math.log/exp modelled in the log domain "
              "with an uninterpreted positive monotone Exp; floats as reals; 'equally seeded generators give identical "
              "sequences' is reduced to: sample() makes exactly one draw whose population/weights are the support/probs "
              "and never touches the global generator (the generator's determinism is assumed)"),
        ref='DESIGN.md section 4 C11'),
}

NOT_YET = "check not built yet (work in progress; see DESIGN.md section 8 build order)"


# additions made after the seeded-change rounds (appended to the claim text of the property)
ADDENDA = {
    'C01': " Also: the same planner object planning on a second, different problem (nothing may carry over), and one skeleton with "
           "SYMBOLIC transition probabilities (a zero-reward state looping on itself with probability p: masked only when p is exactly 1).",
    'C02': " Also: a policy table that lists the model's states / actions in another order; the same policy object evaluated twice on the same MDP object (second answer checked), and one undiscounted chain with "
           "SYMBOLIC entry / leak probabilities (minus infinity for every positive entry probability into a costly closed class, finite r/q for every positive leak q).",
    'C03': " Also: the same planner object planning on a second, different problem; non-uniform two-state initial distributions; chain values down to -80.",
    'C04': " Also: the same planner object planning first on a problem in which a state is ordinary and then on one in which it is absorbing.",
    'C05': " Also: a multigraph (several actions to the same successor at different symbolic costs); two conversions to the shortest-path view alive at once (convert, convert another problem, search on the first view).",
    'C06': " Also: several reachability queries with different cut-offs (keyword and positional) on the same object.",
    'C07': " Also: Belief objects whose states are listed in another order than the model's state list; an observation space declared explicitly in a non-sorted order (index == position in observation_list).",
    'C08': " Also: the same planner object planning on a second POMDP over the same labels; Belief objects listed in another order than the model's state list.",
    'C09': " Also: bounded policy iteration with an iteration budget of 0 (no LP solved): the reported value is the initial-distribution expectation of the returned table at the best initial node.",
    'C11': " Also: kernels of mixed shapes in chain (one-point rows of mass 1, 0 and 1/2, distribution objects), sampling after in-place re-weighting / key replacement of a DictDistribution.",
    'C12': " Also: domains that hold both x and (x,), values(), and ellipses that stand for zero fields.",
    'C13': " Also: sub-goal options created without a name (the default) in a problem that is built twice in one process.",
    'C15': " Also: every reported (end state, duration, reward) triple is the triple of one of the simulations; several option queries on the same semi-MDP object (another option with the same name, a changed number of simulations).",
    'C16': " Also: discounts next to 1 (999/1000 ...) on skeletons with several self-looping states, a skeleton whose states each lack one of three actions, and the same planner object planning on a second problem.",
    'C17': " Also: action labels listed in a non-sorted order; an inductive step: ONE model update (_observe) from an arbitrary reachable state of the learner's tables - known pairs are frozen, counts stay consistent, the re-plan satisfies the Bellman residual of the counted model.",
    'C18': " Also: a second game object (another board of the same size) built and queried first in the same process.",
    'C20': " Also: the same grid-world object asked about every cell and action after the symbolic first query.",
}
for _k, _v in ADDENDA.items():
    CLAIMS[_k]['text'] = CLAIMS[_k]['text'] + _v


def main():
    props = [json.loads(l) for l in open(os.path.join(ROOT, 'properties.jsonl'))]
    extra_na = {}
    na_path = os.path.join(ROOT, 'tools', 'not_applicable.json')
    if os.path.exists(na_path):
        extra_na = json.load(open(na_path))
    checks, na = [], []
    for p in props:
        pid = p['id']
        c = CLAIMS.get(pid)
        if c is None:
            na.append(dict(property_id=pid, reason=extra_na.get(pid, NOT_YET)))
            continue
        checks.append(dict(
            property_id=pid,
            quick_cmd=f"./check {pid} --tier quick",
            thorough_cmd=f"./check {pid} --tier thorough",
            evidence_file=f"evidence/{pid}.json",
            replay_cmd_template="./check --replay {path}",
            engine="symx",
            level_claimed=dict(category='other', text=c['text'], design_ref=c['ref']),
            level_note=c['note'],
            technique=TECH,
        ))
    m = dict(
        version=1, setup_cmd="./setup.sh",
        hooks=dict(guard="MSDM_VERIF",
                   enable="none needed: symbolic execution observes internals through facades; no source hooks are committed in /repo",
                   baseline_off_cmd="cd /repo && /venv/bin/python -m pytest -ra -q -p no:cacheprovider --timeout=900 --continue-on-collection-errors",
                   source_commits=[], add_only=True),
        engines=[dict(name="symx", path="symx/", serves_properties=[c['property_id'] for c in checks],
                      kind_free_text=("own bounded symbolic executor for Python: z3-backed number objects, fork on every "
                                      "symbolic branch, depth-first re-execution of all feasible paths, numpy/torch/random/math "
                                      "facades, z3 discharges every obligation; REAL-mode replay on the unmodified code"))],
        checks=checks,
        notes="See DESIGN.md. Exit codes of ./check: 0 ok, 1 replayed violation, 2 inconclusive (solver unknown / budget), 3 machinery error.",
        not_applicable=na,
    )
    json.dump(m, open(os.path.join(ROOT, 'MANIFEST.json'), 'w'), indent=1)
    print(f"claims={len(checks)} not_applicable={len(na)}")


if __name__ == '__main__':
    main()
