#!/usr/bin/env python3
"""Regenerate MANIFEST.json from the per-property claim table below."""
import json
import os

ROOT = os.path.dirname(os.path.dirname(os.path.abspath(__file__)))
TECH = ("bounded symbolic execution of the real Python functions on z3-backed values (all feasible paths; "
        "numpy/random/math replaced by symbolic facades), obligations discharged by z3 (unsat of path AND NOT phi); "
        "counterexamples replayed on the unmodified code")

CLAIMS = {
    'C11': dict(
        text=("For every support size within the bound and every distribution kind, the probability-calculus laws are "
              "proved for ALL probability/weight/score values at once (symbolic reals, zero entries included), by running "
              "the real methods on symbolic numbers and discharging each law as a z3 obligation; sampling is checked "
              "against a nondeterministic generator (all draws). Bounded proof, not sampling: holds for every value inside "
              "the bound, says nothing outside it."),
        note=("supports of size <= 3 (quick) / 4 (thorough); kernels/likelihood weights from rational menus when the base "
              "probabilities are symbolic (plus one fully symbolic 2x2 NRA case); math.log/exp modelled in the log domain "
              "with an uninterpreted positive monotone Exp; floats as reals; 'equally seeded generators give identical "
              "sequences' is reduced to: sample() makes exactly one draw whose population/weights are the support/probs "
              "and never touches the global generator (the generator's determinism is assumed)"),
        ref='DESIGN.md section 4 C11'),
}

NOT_YET = "check not built yet (work in progress; see DESIGN.md section 8 build order)"


def main():
    props = [json.loads(l) for l in open(os.path.join(ROOT, 'properties.jsonl'))]
    extra_na = {}
    na_path = os.path.join(ROOT, 'tools', 'not_applicable.json')
    if os.path.exists(na_path):
        extra_na = json.load(open(na_path))
    checks, na = [], []
    for p in props:
        pid = p['id']
        c = CLAIMS.get(pid)
        if c is None:
            na.append(dict(property_id=pid, reason=extra_na.get(pid, NOT_YET)))
            continue
        checks.append(dict(
            property_id=pid,
            quick_cmd=f"./check {pid} --tier quick",
            thorough_cmd=f"./check {pid} --tier thorough",
            evidence_file=f"evidence/{pid}.json",
            replay_cmd_template="./check --replay {path}",
            engine="symx",
            level_claimed=dict(category='other', text=c['text'], design_ref=c['ref']),
            level_note=c['note'],
            technique=TECH,
        ))
    m = dict(
        version=1, setup_cmd="./setup.sh",
        hooks=dict(guard="MSDM_VERIF",
                   enable="none needed: symbolic execution observes internals through facades; no source hooks are committed in /repo",
                   baseline_off_cmd="cd /repo && /venv/bin/python -m pytest -ra -q -p no:cacheprovider --timeout=900 --continue-on-collection-errors",
                   source_commits=[], add_only=True),
        engines=[dict(name="symx", path="symx/", serves_properties=[c['property_id'] for c in checks],
                      kind_free_text=("own bounded symbolic executor for Python: z3-backed number objects, fork on every "
                                      "symbolic branch, depth-first re-execution of all feasible paths, numpy/torch/random/math "
                                      "facades, z3 discharges every obligation; REAL-mode replay on the unmodified code"))],
        checks=checks,
        notes="See DESIGN.md. Exit codes of ./check: 0 ok, 1 replayed violation, 2 inconclusive (solver unknown / budget), 3 machinery error.",
        not_applicable=na,
    )
    json.dump(m, open(os.path.join(ROOT, 'MANIFEST.json'), 'w'), indent=1)
    print(f"claims={len(checks)} not_applicable={len(na)}")


if __name__ == '__main__':
    main()
