#!/usr/bin/env python3
"""Re-decide exported obligations (SMT-LIB2, each must be unsat) with the cvc5 binary and /usr/bin/z3 4.8.12.
usage: crosscheck.py <dir> [max_files]   -> prints a JSON summary; exit 3 on a disagreement (a solver answers sat)."""
import sys, os, json, subprocess, glob, time
from concurrent.futures import ThreadPoolExecutor


def run(cmd, timeout):
    try:
        p = subprocess.run(cmd, capture_output=True, text=True, timeout=timeout)
        out = (p.stdout + p.stderr).strip().splitlines()
        if any(l.startswith('(error') for l in out):
            return 'error'
        for l in out:
            if l.strip() in ('sat', 'unsat', 'unknown'):
                return l.strip()
        return 'error'
    except subprocess.TimeoutExpired:
        return 'timeout'


def one(fn):
    r = {}
    r['cvc5'] = run(['cvc5', '--lang', 'smt2', '--tlimit=20000', fn], 40)
    r['z3-4.8.12'] = run(['/usr/bin/z3', '-T:20', fn], 40)
    return fn, r


def main(d, cap=200):
    files = sorted(glob.glob(os.path.join(d, '*.smt2')))[:cap]
    t0 = time.time()
    summary = {'files': len(files), 'cvc5': {}, 'z3-4.8.12': {}, 'disagreements': []}
    with ThreadPoolExecutor(16) as ex:
        for fn, r in ex.map(one, files):
            for k, v in r.items():
                summary[k][v] = summary[k].get(v, 0) + 1
                if v == 'sat':
                    summary['disagreements'].append((os.path.basename(fn), k))
    summary['wall_s'] = round(time.time() - t0, 1)
    print(json.dumps(summary))
    return 3 if summary['disagreements'] else 0


if __name__ == '__main__':
    sys.exit(main(sys.argv[1], int(sys.argv[2]) if len(sys.argv) > 2 else 200))
